//! C11 — system-level transformations preserve observable behaviour.
//!
//! `simplify_expressions` and `replace_anonymous_inputs_with_zero` run on a clone of every system of
//! the enumerated family; the result is compared with the original list by list, function by
//! function under every valuation of states and inputs (reference evaluator), and by lock-step
//! reference simulation.

use crate::common::*;
use patronus::expr::{Context, ExprRef, TypeCheck};
use patronus::system::TransitionSystem;
use patronus::system::transform::{replace_anonymous_inputs_with_zero, simplify_expressions};
use pvcore::bv::Val;
use pvcore::evalref::*;
use pvcore::run::*;
use pvcore::sysgen::*;
use pvcore::terms::*;
use pvcore::tsref::{Ts, key as vkey};
use rayon::prelude::*;
use rustc_hash::FxHashSet;
use serde_json::{Value, json};
use std::collections::BTreeMap;
use std::sync::atomic::{AtomicBool, AtomicU64, Ordering};

pub const ANON_PREFIXES: [&str; 2] = ["_input", "_state"];
pub const SIM_STEPS_QUICK: usize = 3;
pub const SIM_STEPS_THOROUGH: usize = 4;

#[derive(Clone, Copy, Debug, PartialEq, Eq)]
pub enum Pass {
    Simplify,
    Zero,
}

impl Pass {
    fn name(&self) -> &'static str {
        match self {
            Pass::Simplify => "simplify",
            Pass::Zero => "zero",
        }
    }
    fn from_name(s: &str) -> Pass {
        match s {
            "simplify" => Pass::Simplify,
            "zero" => Pass::Zero,
            o => panic!("unknown pass {o}"),
        }
    }
}

#[derive(Clone, Debug)]
pub struct Fail {
    pub class: String,
    /// slot kind and root operator of the original function, or "-"
    pub shape: String,
    pub width: u32,
    pub what: String,
}

#[derive(Default, Clone, Debug)]
pub struct Info {
    pub changed: bool,
    pub functions_compared: u64,
    pub valuations: u64,
    pub sim_steps: u64,
    pub sim_states: u64,
    pub removed_inputs: u64,
    pub names_checked: u64,
}

fn is_anon(name: &str) -> bool {
    ANON_PREFIXES.iter().any(|p| name.starts_with(p))
}

fn fail(class: &str, shape: &str, width: u32, what: String) -> Fail {
    Fail { class: class.to_string(), shape: shape.to_string(), width, what }
}

/// (slot, index, expr) of every function of a system, in a fixed order
fn functions(sys: &TransitionSystem) -> Vec<(&'static str, usize, ExprRef)> {
    let mut v = vec![];
    for (i, s) in sys.states.iter().enumerate() {
        if let Some(e) = s.init {
            v.push(("init", i, e));
        }
        if let Some(e) = s.next {
            v.push(("next", i, e));
        }
    }
    for (i, o) in sys.outputs.iter().enumerate() {
        v.push(("output", i, o.expr));
    }
    for (i, e) in sys.bad_states.iter().enumerate() {
        v.push(("bad", i, *e));
    }
    for (i, e) in sys.constraints.iter().enumerate() {
        v.push(("constraint", i, *e));
    }
    v
}

pub fn check_case(spec: &SysSpec, named: bool, pass: Pass, sim_steps: usize) -> (Option<Fail>, Info) {
    let mut info = Info::default();
    let mut ctx = Context::default();
    let built = spec.build(&mut ctx);
    let mut sys = built.sys;
    if named {
        let roots = root_exprs(&sys);
        for (i, e) in nodes_of(&ctx, &roots).into_iter().enumerate() {
            if !ctx[e].is_symbol() {
                let n = ctx.string(format!("n{i}").into());
                sys.names[e] = Some(n);
            }
        }
    }
    let before = sys.clone();
    let r = catch(|| match pass {
        Pass::Simplify => simplify_expressions(&mut ctx, &mut sys),
        Pass::Zero => replace_anonymous_inputs_with_zero(&mut ctx, &mut sys),
    });
    if let Err(p) = r {
        return (Some(fail(&format!("panic|{}", p.file()), "-", 0, format!("{} panicked: {} ({})", pass.name(), p.msg, p.short_loc()))), info);
    }
    let after = sys;
    let name_of = |e: ExprRef| ctx.get_symbol_name(e).unwrap_or("?").to_string();

    // ---- input and state lists
    let removed: Vec<ExprRef> = match pass {
        Pass::Simplify => vec![],
        Pass::Zero => before.inputs.iter().cloned().filter(|i| is_anon(&name_of(*i))).collect(),
    };
    info.removed_inputs = removed.len() as u64;
    let expected_inputs: Vec<ExprRef> = before.inputs.iter().cloned().filter(|i| !removed.contains(i)).collect();
    if after.inputs != expected_inputs {
        let show = |v: &[ExprRef]| v.iter().map(|e| show_expr(&ctx, *e)).collect::<Vec<_>>().join(", ");
        return (Some(fail("inputs-changed", "-", 0, format!("{}: input list is [{}], expected [{}]", pass.name(), show(&after.inputs), show(&expected_inputs)))), info);
    }
    if after.states.len() != before.states.len() || after.states.iter().zip(before.states.iter()).any(|(a, b)| a.symbol != b.symbol) {
        let show = |s: &TransitionSystem| s.states.iter().map(|e| show_expr(&ctx, e.symbol)).collect::<Vec<_>>().join(", ");
        return (Some(fail("states-changed", "-", 0, format!("{}: state list is [{}], was [{}]", pass.name(), show(&after), show(&before)))), info);
    }
    for (k, (a, b)) in after.states.iter().zip(before.states.iter()).enumerate() {
        let nm = name_of(b.symbol);
        if b.init.is_some() && a.init.is_none() {
            return (Some(fail("init-dropped", "init", 0, format!("{}: state {k} ({nm}) lost its init expression {}", pass.name(), show_expr(&ctx, b.init.unwrap())))), info);
        }
        if b.next.is_some() && a.next.is_none() {
            return (Some(fail("next-dropped", "next", 0, format!("{}: state {k} ({nm}) lost its next function {}", pass.name(), show_expr(&ctx, b.next.unwrap())))), info);
        }
        if (b.init.is_none() && a.init.is_some()) || (b.next.is_none() && a.next.is_some()) {
            return (Some(fail("function-added", "-", 0, format!("{}: state {k} ({nm}) gained an init or next function", pass.name()))), info);
        }
    }
    if after.outputs.len() != before.outputs.len()
        || after.bad_states.len() != before.bad_states.len()
        || after.constraints.len() != before.constraints.len()
        || after.outputs.iter().zip(before.outputs.iter()).any(|(a, b)| ctx[a.name] != ctx[b.name])
    {
        return (Some(fail("roots-changed", "-", 0, format!("{}: the number of outputs/bads/constraints or an output name changed", pass.name()))), info);
    }

    // ---- function by function
    let fb = functions(&before);
    let fa = functions(&after);
    assert_eq!(fb.len(), fa.len());
    let declared: Vec<ExprRef> = after.inputs.iter().cloned().chain(after.states.iter().map(|s| s.symbol)).collect();
    let all_after: Vec<ExprRef> = root_exprs(&after);
    for s in symbols_of(&ctx, &all_after) {
        if removed.contains(&s) {
            let slot = fa.iter().find(|(_, _, e)| symbols_of(&ctx, &[*e]).contains(&s)).map(|(k, i, _)| format!("{k} {i}")).unwrap_or("a symbol list".into());
            return (Some(fail("removed-input-occurs", "-", 0, format!("{}: removed input {} still occurs in {slot} of the result", pass.name(), name_of(s)))), info);
        }
        if !declared.contains(&s) {
            return (Some(fail("foreign-symbol", "-", 0, format!("{}: the result mentions {} which is neither an input nor a state of it", pass.name(), name_of(s)))), info);
        }
    }
    let ts_b = Ts::new(&ctx, &before);
    let state_alph: Vec<Vec<Val>> = ts_b.state_tys.iter().map(|t| Ts::all_values(*t)).collect();
    let input_alph_b: Vec<Vec<Val>> = before
        .inputs
        .iter()
        .zip(ts_b.input_tys.iter())
        .map(|(i, t)| if removed.contains(i) { vec![zero_val(*t)] } else { Ts::all_values(*t) })
        .collect();
    // pairs (original, new) that must denote the same function: changed init/next/output/bad/
    // constraint expressions, and expressions a surviving name moved to
    struct Pair {
        class: &'static str,
        shape: String,
        w: u32,
        label: String,
        eb: ExprRef,
        ea: ExprRef,
    }
    let mut pairs: Vec<Pair> = vec![];
    for ((slot, idx, eb), (_, _, ea)) in fb.iter().zip(fa.iter()) {
        if eb == ea {
            continue;
        }
        info.changed = true;
        info.functions_compared += 1;
        let shape = format!("{slot}:{}", expr_op_name(&ctx, *eb));
        let w = ty_width(ty_of(&ctx, *eb));
        let tb = type_ref(&ctx, *eb).expect("generator produced an ill-typed system");
        match type_ref(&ctx, *ea) {
            Err(m) => return (Some(fail("illtyped", &shape, w, format!("{}: {slot} {idx} `{}` became `{}` which is ill-typed: {m}", pass.name(), show_expr(&ctx, *eb), show_expr(&ctx, *ea)))), info),
            Ok(ta) if ta != tb => return (Some(fail("type-changed", &shape, w, format!("{}: {slot} {idx} `{}` of type {tb} became `{}` of type {ta}", pass.name(), show_expr(&ctx, *eb), show_expr(&ctx, *ea)))), info),
            _ => {}
        }
        for n in nodes_of(&ctx, &[*ea]) {
            if let Err(e) = n.type_check(&ctx) {
                return (Some(fail("typecheck", &shape, w, format!("{}: a node of the new {slot} {idx} fails patronus' type_check: {}", pass.name(), e.get_msg()))), info);
            }
        }
        pairs.push(Pair { class: "value", shape, w, label: format!("{slot} {idx}"), eb: *eb, ea: *ea });
    }
    // names: a name that survives denotes the same function as before
    if named {
        let mut old_names: BTreeMap<String, ExprRef> = BTreeMap::new();
        for e in nodes_of(&ctx, &root_exprs(&before)) {
            if let Some(n) = before.names[e] {
                old_names.entry(ctx[n].to_string()).or_insert(e);
            }
        }
        let mut new_named: Vec<(String, ExprRef)> = vec![];
        for e in nodes_of(&ctx, &root_exprs(&after)) {
            if let Some(n) = after.names[e] {
                new_named.push((ctx[n].to_string(), e));
            }
        }
        new_named.sort();
        for (n, e_new) in new_named {
            let Some(e_old) = old_names.get(&n) else { continue };
            if *e_old == e_new {
                continue;
            }
            info.names_checked += 1;
            let shape = format!("name:{}", expr_op_name(&ctx, *e_old));
            let w = ty_width(ty_of(&ctx, *e_old));
            if type_ref(&ctx, *e_old).ok() != type_ref(&ctx, e_new).ok() {
                return (Some(fail("name-moved", &shape, w, format!("{}: the name {n} of `{}` now labels `{}` which has a different type", pass.name(), show_expr(&ctx, *e_old), show_expr(&ctx, e_new)))), info);
            }
            pairs.push(Pair { class: "name-moved", shape, w, label: format!("name {n}"), eb: *e_old, ea: e_new });
        }
    }
    if !pairs.is_empty() {
        let (sts, ins) = (product(&state_alph), product(&input_alph_b));
        // init functions read states only; evaluating them under a full valuation is harmless
        for st in sts.iter() {
            for inp in ins.iter() {
                let env = ts_b.env(st, inp);
                let mut memo = rustc_hash::FxHashMap::default();
                for p in pairs.iter() {
                    info.valuations += 1;
                    let vb = eval_ref_memo(&ctx, p.eb, &env, &mut memo);
                    let va = eval_ref_memo(&ctx, p.ea, &env, &mut memo);
                    if vb != va {
                        return (
                            Some(fail(
                                p.class,
                                &p.shape,
                                p.w,
                                format!(
                                    "{}: {} `{}` became `{}`: {} instead of {} with states [{}] inputs [{}]{}",
                                    pass.name(),
                                    p.label,
                                    show_expr(&ctx, p.eb),
                                    show_expr(&ctx, p.ea),
                                    va.show(),
                                    vb.show(),
                                    vkey(st),
                                    vkey(inp),
                                    if removed.is_empty() { "" } else { " (removed inputs bound to 0)" }
                                ),
                            )),
                            info,
                        );
                    }
                }
            }
        }
    }

    // ---- lock-step reference simulation (only when something changed: identical systems have
    //      identical executions by construction of the reference)
    // (systems whose init expressions read inputs have no reference initial-state set: the
    //  function-level comparison above is the whole oracle for them)
    let init_reads_input = spec.states.iter().any(|st| st.init.as_ref().map(|t| t.symbols().iter().any(|sy| spec.inputs.contains(sy))).unwrap_or(false));
    if (info.changed || !removed.is_empty()) && !init_reads_input {
        if let Some(f) = lockstep(&ctx, &before, &after, &removed, pass, sim_steps, &mut info) {
            return (Some(f), info);
        }
    }
    (None, info)
}

fn zero_val(t: Ty) -> Val {
    match t {
        Ty::Bv(w) => Val::B(pvcore::bv::Bv::zero(w)),
        Ty::Arr(i, d) => Val::A(pvcore::bv::Arr::constant(i, &pvcore::bv::Bv::zero(d))),
    }
}

/// Both systems start in the same initial states and are driven by every input sequence of
/// length `sim_steps` (removed inputs are 0 on the original side); outputs, bads, constraints and
/// successor sets must agree at every step. States reached are merged per layer (both systems
/// are in the same state, which is what is being checked).
fn lockstep(ctx: &Context, before: &TransitionSystem, after: &TransitionSystem, removed: &[ExprRef], pass: Pass, sim_steps: usize, info: &mut Info) -> Option<Fail> {
    let ts_b = Ts::new(ctx, before);
    let ts_a = Ts::new(ctx, after);
    let mut ib = ts_b.initial_states();
    let mut ia = ts_a.initial_states();
    ib.sort_by_key(|s| vkey(s));
    ia.sort_by_key(|s| vkey(s));
    if ib != ia {
        return Some(fail("initial-states", "init", 0, format!("{}: the set of initial states changed: {} before, {} after, first difference {} vs {}", pass.name(), ib.len(), ia.len(), ib.iter().zip(ia.iter()).find(|(a, b)| a != b).map(|(a, _)| vkey(a)).unwrap_or_default(), ib.iter().zip(ia.iter()).find(|(a, b)| a != b).map(|(_, b)| vkey(b)).unwrap_or_default())));
    }
    let inputs_a = ts_a.input_space();
    // the original's input vector for an input vector of the result
    let widen = |inp_a: &[Val]| -> Vec<Val> {
        let mut it = inp_a.iter();
        before.inputs.iter().zip(ts_b.input_tys.iter()).map(|(i, t)| if removed.contains(i) { zero_val(*t) } else { it.next().unwrap().clone() }).collect()
    };
    let mut layer: Vec<Vec<Val>> = vec![];
    let mut seen = FxHashSet::default();
    for s in ia {
        if seen.insert(vkey(&s)) {
            layer.push(s);
        }
    }
    for step in 0..sim_steps {
        let mut next = vec![];
        let mut nk = FxHashSet::default();
        info.sim_states += layer.len() as u64;
        for st in layer.iter() {
            for inp_a in inputs_a.iter() {
                info.sim_steps += 1;
                let inp_b = widen(inp_a);
                let env_b = ts_b.env(st, &inp_b);
                let env_a = ts_a.env(st, inp_a);
                let mut memo_b = rustc_hash::FxHashMap::default();
                let mut memo_a = rustc_hash::FxHashMap::default();
                let mut cmp = |kind: &str, k: usize, eb: ExprRef, ea: ExprRef| -> Option<Fail> {
                    let (vb, va) = (eval_ref_memo(ctx, eb, &env_b, &mut memo_b), eval_ref_memo(ctx, ea, &env_a, &mut memo_a));
                    if vb != va {
                        Some(fail(
                            "lockstep",
                            &format!("{kind}:{}", expr_op_name(ctx, eb)),
                            ty_width(ty_of(ctx, eb)),
                            format!("{}: at step {step} in state [{}] with inputs [{}] {kind} {k} is {} but was {} in the original", pass.name(), vkey(st), vkey(inp_a), va.show(), vb.show()),
                        ))
                    } else {
                        None
                    }
                };
                for (k, (b, a)) in before.outputs.iter().zip(after.outputs.iter()).enumerate() {
                    if let Some(f) = cmp("output", k, b.expr, a.expr) {
                        return Some(f);
                    }
                }
                for (k, (b, a)) in before.bad_states.iter().zip(after.bad_states.iter()).enumerate() {
                    if let Some(f) = cmp("bad", k, *b, *a) {
                        return Some(f);
                    }
                }
                for (k, (b, a)) in before.constraints.iter().zip(after.constraints.iter()).enumerate() {
                    if let Some(f) = cmp("constraint", k, *b, *a) {
                        return Some(f);
                    }
                }
                // successors: next functions evaluated simultaneously on (state, inputs); a
                // next-less state takes every value
                let succ = |sys: &TransitionSystem, tys: &[Ty], env: &Env, memo: &mut rustc_hash::FxHashMap<ExprRef, Val>| -> Vec<Vec<Val>> {
                    let alph: Vec<Vec<Val>> = sys.states.iter().zip(tys.iter()).map(|(s, t)| match s.next { Some(n) => vec![eval_ref_memo(ctx, n, env, memo)], None => Ts::all_values(*t) }).collect();
                    product(&alph)
                };
                let sb = succ(before, &ts_b.state_tys, &env_b, &mut memo_b);
                let sa = succ(after, &ts_a.state_tys, &env_a, &mut memo_a);
                if sb != sa {
                    return Some(fail("lockstep", "next", 0, format!("{}: at step {step} the successors of state [{}] under inputs [{}] differ from the original's", pass.name(), vkey(st), vkey(inp_a))));
                }
                for n in sa {
                    if nk.insert(vkey(&n)) {
                        next.push(n);
                    }
                }
            }
        }
        layer = next;
    }
    None
}

// ------------------------------------------------------------------ enumeration

/// renaming variants for the anonymous-input pass: 0, 1 or 2 of the system's symbols (inputs and
/// states) are renamed to `_input_<n>` / `_state_<n>`
pub fn rename_variants(spec: &SysSpec, full: bool) -> Vec<SysSpec> {
    let syms: Vec<String> = spec.inputs.iter().map(|(n, _)| n.clone()).chain(spec.states.iter().map(|s| s.name.clone())).collect();
    let mut out = vec![spec.clone()];
    let pre = ["_input_", "_state_"];
    // look-alikes: names that contain the prefixes without starting with them (user names, must stay), and
    // names that start with them without the usual `_<n>` suffix (anonymous by the stated rule)
    for (i, (a, _)) in spec.inputs.iter().enumerate() {
        let alikes: &[&str] = if full { &["next_state", "data_input_valid", "x_input_0", "_inp", "input_0", "_Input_0", "_input", "_statex", "_state"] } else { &["next_state", "_input"] };
        for n in alikes.iter() {
            if !full && i > 0 {
                continue;
            }
            let mut v = rename_spec(spec, a, n);
            v.name = format!("{}-alike", spec.name);
            out.push(v);
        }
    }
    if !full {
        // reduced set: each input becomes `_input_<n>`, each state `_state_<n>`, one at a time
        for (i, a) in syms.iter().enumerate() {
            let mut v = rename_spec(spec, a, &format!("{}{i}", if i < spec.inputs.len() { pre[0] } else { pre[1] }));
            v.name = format!("{}-anon", spec.name);
            out.push(v);
        }
        return out;
    }
    for (i, a) in syms.iter().enumerate() {
        for p in pre {
            let mut v = rename_spec(spec, a, &format!("{p}{i}"));
            v.name = format!("{}-anon", spec.name);
            out.push(v);
        }
    }
    for (i, a) in syms.iter().enumerate() {
        for (j, b) in syms.iter().enumerate().skip(i + 1) {
            for p in pre {
                for q in pre {
                    let v = rename_spec(spec, a, &format!("{p}{i}"));
                    let mut v = rename_spec(&v, b, &format!("{q}{j}"));
                    v.name = format!("{}-anon", spec.name);
                    out.push(v);
                }
            }
        }
    }
    out
}

/// States whose init expression reads an input, with and without a next function (the btor2
/// reader demotes a state without init and next to an input named `_state_<n>`, so `init s = _state_0`
/// is what a parsed design looks like). Only the function-level oracle applies to these.
pub fn init_from_input_systems() -> Vec<SysSpec> {
    let mut out = vec![];
    let i = || T::sym("f2", Ty::Bv(2));
    let j = || T::sym("g2", Ty::Bv(2));
    let s = |n: &str| T::sym(n, Ty::Bv(2));
    for (k, next_s) in [None, Some(T::bin(Bin::Add, s("s2"), T::lit(2, 1))), Some(s("s2"))].into_iter().enumerate() {
        for (m, init_t) in [i(), T::bin(Bin::Add, i(), j()), T::bin(Bin::Xor, j(), T::lit(2, 3))].into_iter().enumerate() {
            out.push(SysSpec {
                name: format!("initin{k}{m}"),
                inputs: vec![("f2".into(), Ty::Bv(2)), ("g2".into(), Ty::Bv(2))],
                states: vec![
                    StateSpec { name: "s2".into(), ty: Ty::Bv(2), init: Some(i()), next: next_s.clone() },
                    StateSpec { name: "t2".into(), ty: Ty::Bv(2), init: Some(init_t), next: Some(T::bin(Bin::Add, s("t2"), j())) },
                    StateSpec { name: "u2".into(), ty: Ty::Bv(2), init: Some(T::bin(Bin::And, s("s2"), j())), next: None },
                ],
                outputs: vec![("o".into(), T::bin(Bin::Add, s("s2"), s("t2")))],
                bads: vec![T::bin(Bin::Eq, s("u2"), i())],
                constraints: vec![],
            });
        }
    }
    // inputs read by init expressions ONLY (nothing else of the system mentions them)
    for (m, init_t) in [i(), T::bin(Bin::Add, i(), T::lit(2, 1)), T::bin(Bin::Xor, i(), s("s2"))].into_iter().enumerate() {
        out.push(SysSpec {
            name: format!("initonly{m}"),
            inputs: vec![("f2".into(), Ty::Bv(2)), ("g2".into(), Ty::Bv(2))],
            states: vec![
                StateSpec { name: "s2".into(), ty: Ty::Bv(2), init: Some(T::lit(2, 1)), next: Some(T::bin(Bin::Add, s("s2"), j())) },
                StateSpec { name: "t2".into(), ty: Ty::Bv(2), init: Some(init_t), next: Some(T::bin(Bin::Add, s("t2"), j())) },
            ],
            outputs: vec![("o".into(), T::bin(Bin::Add, s("s2"), s("t2")))],
            bads: vec![T::bin(Bin::Eq, s("t2"), T::lit(2, 3))],
            constraints: vec![],
        });
    }
    out
}

pub fn meta(rep: &mut Report) {
    rep.rule = "systems = S1 (full pools incl. div/rem) + S3(3) of skeletons K1..K7 (thorough: S1 + S3(4) + S2(32) + S3(5) of K1/K3/K4/K7), hand-built swap/delay/count2/delayin and an array-input system; each with and without names on every intermediate node. simplify_expressions runs on every system; replace_anonymous_inputs_with_zero runs on every renaming variant (0, 1 or 2 of the inputs/states renamed to _input_<n> / _state_<n>, all prefix combinations, plus look-alike names for every input: `next_state`, `x_input_0`, `data_input_valid`, `_inp`, `input_0`, `_Input_0` (user names) and `_input`, `_state`, `_statex` (anonymous by the prefix rule); in the quick tier the S3 systems get the reduced set: unrenamed, and each single symbol renamed). Oracle: input/state lists (minus the anonymous inputs), no init/next dropped or added, root counts and output names, type of every changed function, equality of every changed function with the original under ALL valuations of states and inputs (removed inputs = 0), no removed or undeclared symbol in the result, surviving names label equivalent functions, lock-step reference simulation over all input sequences of length 3 (quick) / 4 (thorough) from all initial states. evaluations = transformation calls; distinct_nontrivial = distinct (system, naming, pass) cases in which at least one init/next/output/bad/constraint expression changed".into();
    rep.assumptions = vec![
        "an input is anonymous iff its name starts with `_input` or `_state` (the constants of btor2/parse.rs); the pass looks at sys.inputs only, a state with such a name stays".into(),
        "in the skeleton families init expressions read earlier states only; init expressions that read inputs (also anonymous ones, also inputs that nothing else in the system mentions) come from the hand-built initin*/initonly* systems, for which the lock-step simulation is replaced by the function-level comparison".into(),
        "all values of all states and inputs are enumerated (at most 8 bits per system in the family, 16 for the hand-built 8-bit shapes)".into(),
    ];
}

#[derive(Clone)]
struct Case {
    spec: SysSpec,
    named: bool,
    pass: Pass,
    steps: usize,
}

fn case_json(c: &Case) -> Value {
    json!({"system": c.spec.to_json(), "named": c.named, "pass": c.pass.name()})
}

fn report(c: &Case, f: &Fail, order: u64, rep: &Report) {
    let class = f.class.clone();
    // shrinking re-runs the whole case (lock-step simulation over array values is expensive): it stops, keeping
    // what it has, 20 s after it began - a report must not take longer than the search
    let t0 = std::time::Instant::now();
    // (systems with array states or inputs are reported as found: one lock-step run of a shrink candidate over array
    // values can take minutes, and the deadline is only looked at between candidates)
    let min = if c.spec.has_arrays() {
        c.spec.clone()
    } else {
        shrink_spec(&c.spec, &|s| t0.elapsed().as_secs() < 20 && matches!(check_case(s, c.named, c.pass, c.steps).0, Some(g) if g.class == class))
    };
    let f2 = check_case(&min, c.named, c.pass, c.steps).0.filter(|g| g.class == class).unwrap_or_else(|| f.clone());
    // the root operator of the original function tells simplifier rules apart; for the zero pass
    // (one substitution, whatever the operator) only the slot kind is kept
    let shape = if c.pass == Pass::Zero { f2.shape.split(':').next().unwrap_or("-").to_string() } else { f2.shape.clone() };
    let sig = format!("C11|{}|{}|{}|{}", f2.class, c.pass.name(), if f2.width == 0 { "-" } else { wclass(f2.width) }, shape);
    rep.violation(Violation {
        sig,
        what: format!("[{}{}] {}", sys_class(&c.spec), if c.named { ", named nodes" } else { "" }, f2.what),
        case: json!({"system": min.to_json(), "named": c.named, "pass": c.pass.name(), "sim_steps": c.steps, "found_in": c.spec.to_json()}),
        order,
    });
}

pub fn run(opts: &Opts, rep: &Report) {
    let tier = tier_of(opts);
    let mut specs = init_from_input_systems();
    specs.extend(system_family(tier, true));
    // every two-operator term as the root of a system of its own (last: a capped run cuts these first)
    // (run as a second pass so that a capped run completes the families above first; quick: every 16th term of the
    // universe [1,2], the residue chosen by the seed, so that repeated quick runs walk through the whole set)
    let n_family = specs.len();
    let t2r = if tier.is_thorough() { t2_root_systems(&[vec![1, 2], vec![1, 4], vec![2, 3]], &[(1, 2)]) } else { t2_root_systems(&[vec![1, 2]], &[(1, 2)]) };
    rep.add("t2_root_systems_in_universe", t2r.len() as u64);
    let stride = if tier.is_thorough() { 1 } else { 16 };
    let t2r: Vec<SysSpec> = t2r.into_iter().enumerate().filter(|(i, _)| (*i as u64) % stride == opts.seed % stride).map(|(_, s)| s).collect();
    rep.add("t2_root_systems", t2r.len() as u64);
    specs.extend(t2r);
    rep.add("systems", specs.len() as u64);
    let budget = Budget::new(opts.budget_s);
    let steps = if tier.is_thorough() { SIM_STEPS_THOROUGH } else { SIM_STEPS_QUICK };
    rep.note("lockstep_input_sequence_length", json!(steps));
    // oracle-side vacuity: the family must contain what the property quantifies over
    let has = |f: &dyn Fn(&SysSpec) -> bool| specs.iter().any(|s| f(s));
    if !(has(&|s| s.has_arrays()) && has(&|s| s.states.iter().any(|st| st.init.is_none())) && has(&|s| s.states.iter().any(|st| st.next.is_none())) && has(&|s| s.states.iter().any(|st| s.outputs.iter().any(|(_, t)| *t == T::Sym(st.name.clone(), st.ty)) && s.bads.iter().any(|t| *t == T::Sym(st.name.clone(), st.ty)))))
    {
        eprintln!("C11 vacuity guard: family lacks arrays / init-less / next-less states / a state that is also output and bad");
        std::process::exit(2);
    }
    let capped = AtomicBool::new(false);
    let skipped = AtomicU64::new(0);
    let failing: Collector<(Case, Fail)> = Collector::default();
    let do_spec = |(idx, spec): (usize, &SysSpec)| {
        if budget.exceeded() {
            capped.store(true, Ordering::Relaxed);
            skipped.fetch_add(1, Ordering::Relaxed);
            return;
        }
        let mut cases: Vec<Case> = vec![];
        for named in [false, true] {
            cases.push(Case { spec: spec.clone(), named, pass: Pass::Simplify, steps });
        }
        // quick: the product sweep S3 gets the reduced renaming set, everything else the full one
        let full = tier.is_thorough() || !spec.name.ends_with("-s3");
        for (vi, v) in rename_variants(spec, full).into_iter().enumerate() {
            // names do not interact with the renaming: named nodes on the unrenamed system and on
            // the variants that anonymise one symbol
            cases.push(Case { spec: v.clone(), named: false, pass: Pass::Zero, steps });
            let n_syms = spec.inputs.len() + spec.states.len();
            if vi <= 2 * n_syms {
                cases.push(Case { spec: v, named: true, pass: Pass::Zero, steps });
            }
        }
        let mut counts: BTreeMap<String, u64> = BTreeMap::new();
        let mut nontrivial = vec![];
        for (ci, c) in cases.iter().enumerate() {
            let (f, info) = check_case(&c.spec, c.named, c.pass, c.steps);
            *counts.entry("evaluations".into()).or_default() += 1;
            *counts.entry(format!("cases:{}", c.pass.name())).or_default() += 1;
            *counts.entry("functions_compared".into()).or_default() += info.functions_compared;
            *counts.entry("valuations_compared".into()).or_default() += info.valuations;
            *counts.entry("lockstep_steps".into()).or_default() += info.sim_steps;
            *counts.entry("lockstep_states".into()).or_default() += info.sim_states;
            *counts.entry("names_rechecked".into()).or_default() += info.names_checked;
            if c.pass == Pass::Zero {
                *counts.entry(format!("zero:removed_inputs={}", info.removed_inputs)).or_default() += 1;
            }
            if info.changed {
                *counts.entry(format!("changed:{}", c.pass.name())).or_default() += 1;
                nontrivial.push(hash64(&format!("{}#{}#{}", spec_key(&c.spec), c.named, c.pass.name())));
            }
            if let Some(f) = f {
                *counts.entry("cases_failing".into()).or_default() += 1;
                failing.offer(&format!("{}|{}|{}", f.class, c.pass.name(), if c.pass == Pass::Zero { f.shape.split(':').next().unwrap_or("-") } else { &f.shape }), (idx as u64) * 1000 + ci as u64, || (c.clone(), f.clone()));
            }
            if idx % 4001 == 7 && ci == 0 {
                rep.sample(json!({"case": case_json(c), "changed": info.changed, "functions_compared": info.functions_compared}));
            }
        }
        rep.merge_counts(&counts);
        rep.distinct_hashes(&nontrivial);
    };
    specs[..n_family].par_iter().enumerate().for_each(|x| do_spec(x));
    specs[n_family..].par_iter().enumerate().for_each(|(i, s)| do_spec((i + n_family, s)));
    let failing = failing.drain();
    failing.par_iter().for_each(|(order, (c, f))| report(c, f, *order, rep));
    if capped.load(Ordering::Relaxed) {
        rep.cap_hit(&format!("wall budget {}s: {} systems not checked", opts.budget_s, skipped.load(Ordering::Relaxed)));
    }
    // vacuity (oracle side: computed from names, not from what the pass did)
    if rep.get("zero:removed_inputs=1") == 0 || rep.get("zero:removed_inputs=2") == 0 || rep.get("zero:removed_inputs=0") == 0 {
        eprintln!("C11 vacuity guard: the renaming variants do not cover 0, 1 and 2 anonymous inputs");
        std::process::exit(2);
    }
}

pub fn replay(case: &Value, rep: &Report) {
    let spec = SysSpec::from_json(&case["system"]).expect("system");
    let c = Case { spec, named: case["named"].as_bool().unwrap_or(false), pass: Pass::from_name(case["pass"].as_str().unwrap_or("simplify")), steps: case["sim_steps"].as_u64().unwrap_or(SIM_STEPS_QUICK as u64) as usize };
    if let (Some(f), _) = check_case(&c.spec, c.named, c.pass, c.steps) {
        report(&c, &f, 0, rep);
    }
}
