//! Drivers for the system-level properties: C07 (simulator), C11 (system transformations),
//! C17 (cone of influence).
mod c07;
mod c07_bigmem;
mod c11;
mod c17;
mod common;

use pvcore::run::*;

fn main() {
    main_with(&[
        Entry { id: "C07", level: "model_checking", meta: c07::meta, run: c07::run, replay: c07::replay },
        Entry { id: "C11", level: "exploration", meta: c11::meta, run: c11::run, replay: c11::replay },
        Entry { id: "C17", level: "model_checking", meta: c17::meta, run: c17::run, replay: c17::replay },
    ])
}
