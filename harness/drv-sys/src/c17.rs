//! C17 — the cone of influence is sufficient and syntactically tight.
//!
//! For every system of the family, every sub-expression as root and the three variants:
//! (a) only declared inputs/states, (b) equal to an independently written dependency search,
//! (c) sufficiency by exhaustive perturbation of every symbol outside the reported cone on the
//! reference semantics (tabulated over all state/input valuations).

use crate::common::*;
use patronus::expr::{Context, ExprRef};
use patronus::system::TransitionSystem;
use patronus::system::analysis::{cone_of_influence, cone_of_influence_comb, cone_of_influence_init};
use pvcore::bv::Val;
use pvcore::evalref::*;
use pvcore::run::*;
use pvcore::sysgen::*;
use pvcore::tsref::{Ts, key as vkey};
use rayon::prelude::*;
use rustc_hash::{FxHashMap, FxHashSet};
use serde_json::{Value, json};
use std::collections::{BTreeMap, BTreeSet};
use std::sync::atomic::{AtomicBool, AtomicU64, Ordering};

/// observed steps 0..=horizon for the full cone (quick / thorough)
pub const HORIZON_QUICK: usize = 3;
pub const HORIZON_THOROUGH: usize = 5;
pub const VARIANTS: [&str; 3] = ["full", "init", "comb"];

#[derive(Clone, Debug)]
pub struct Fail {
    pub class: String,
    pub variant: &'static str,
    pub shape: String,
    pub width: u32,
    pub what: String,
}

#[derive(Default, Clone, Debug)]
pub struct Info {
    pub roots: u64,
    pub cone_calls: u64,
    pub strict_subset: [u64; 3],
    pub full_cone_all: u64,
    pub pair_states: u64,
    pub perturbed_steps: [u64; 3],
    pub root_compares: u64,
    pub symbols_perturbed: [u64; 3],
    pub max_layer: u64,
    /// oracle side: (root, symbol) pairs with the symbol outside MY cone and perturbable
    pub oracle_opportunities: [u64; 3],
}

/// independent dependency-graph search: children; for a state symbol its init and/or next
fn my_cone(ctx: &Context, sys: &TransitionSystem, root: ExprRef, follow_init: bool, follow_next: bool) -> BTreeSet<ExprRef> {
    let mut reached: FxHashSet<ExprRef> = FxHashSet::default();
    let mut stack = vec![root];
    let mut out = BTreeSet::new();
    while let Some(e) = stack.pop() {
        if !reached.insert(e) {
            continue;
        }
        stack.extend(children(&ctx[e]));
        if let Some(st) = sys.states.iter().find(|s| s.symbol == e) {
            out.insert(e);
            if follow_init {
                stack.extend(st.init);
            }
            if follow_next {
                stack.extend(st.next);
            }
        }
        if sys.inputs.contains(&e) {
            out.insert(e);
        }
    }
    out
}

/// calls of the subject that are in flight: (what, since); a watchdog thread reports a call that runs away
/// (these analyses finish in microseconds on systems of this size; one that spins allocates without bound)
static IN_FLIGHT: std::sync::Mutex<Vec<(u64, String, std::time::Instant)>> = std::sync::Mutex::new(Vec::new());
thread_local! {
    /// JSON of the system the current thread is checking (for the replay file of a runaway)
    static CURRENT_SPEC: std::cell::RefCell<String> = const { std::cell::RefCell::new(String::new()) };
}
static CALL_ID: AtomicU64 = AtomicU64::new(0);

fn real_cone(ctx: &Context, sys: &TransitionSystem, root: ExprRef, variant: usize) -> Result<Vec<ExprRef>, PanicInfo> {
    let id = CALL_ID.fetch_add(1, Ordering::Relaxed);
    let spec_json = CURRENT_SPEC.with(|c| c.borrow().clone());
    IN_FLIGHT.lock().unwrap().push((id, format!("{} cone of `{}`\u{1}{spec_json}", VARIANTS[variant], show_expr(ctx, root)), std::time::Instant::now()));
    let r = catch(|| match variant {
        0 => cone_of_influence(ctx, sys, root),
        1 => cone_of_influence_init(ctx, sys, root),
        _ => cone_of_influence_comb(ctx, sys, root),
    });
    IN_FLIGHT.lock().unwrap().retain(|c| c.0 != id);
    r
}

fn rss_bytes() -> u64 {
    std::fs::read_to_string("/proc/self/statm").ok().and_then(|s| s.split_whitespace().nth(1).and_then(|p| p.parse::<u64>().ok())).map(|p| p * 4096).unwrap_or(0)
}

/// a cone call that has been running for 20 s, or during which the process has grown beyond 6 GiB, is a runaway:
/// record it, write the evidence and exit (the thread cannot be stopped)
fn runaway_watchdog(rep: &Report, done: &AtomicBool) {
    while !done.load(Ordering::Relaxed) {
        std::thread::sleep(std::time::Duration::from_millis(50));
        let oldest = IN_FLIGHT.lock().unwrap().iter().min_by_key(|c| c.2).cloned();
        let Some((_, what, since)) = oldest else { continue };
        let (what, spec_json) = what.split_once('\u{1}').map(|(a, b)| (a.to_string(), b.to_string())).unwrap_or((what.clone(), String::new()));
        let secs = since.elapsed().as_secs_f64();
        let rss = rss_bytes();
        if secs > 20.0 || (secs > 0.5 && rss > (6u64 << 30)) {
            rep.violation(Violation {
                sig: "C17|runaway|-|-|-".into(),
                what: format!("the {what} has been running for {secs:.1} s and the process has grown to {} MiB: the analysis does not terminate (or allocates without bound)", rss >> 20),
                case: json!({"runaway": what, "system": serde_json::from_str::<Value>(&spec_json).unwrap_or(Value::Null), "horizon": HORIZON_QUICK}),
                order: 0,
            });
            rep.cap_hit("a cone-of-influence call ran away: the sweep was abandoned");
            let code = rep.finish();
            std::process::exit(code);
        }
    }
}

/// all values of every node under every valuation of states and inputs, plus next-state digits
struct Tab {
    ns: usize,
    ni: usize,
    nn: usize,
    n_state_syms: usize,
    st_sizes: Vec<usize>,
    st_strides: Vec<usize>,
    in_sizes: Vec<usize>,
    in_strides: Vec<usize>,
    /// [(s * ni + i) * nn + node] -> value id (per-node dictionary)
    val: Vec<u32>,
    /// [(s * ni + i) * n_state_syms + k] -> digit of state k's next value, u32::MAX for next-less
    next: Vec<u32>,
    /// (digits of all states, state index) of every initial state, with the init-less digits
    initial: Vec<(Vec<u32>, usize)>,
    initless: Vec<bool>,
    nextless: Vec<bool>,
    st_alph: Vec<Vec<Val>>,
    in_alph: Vec<Vec<Val>>,
}

const FREE: u32 = u32::MAX;

impl Tab {
    fn digits(idx: usize, sizes: &[usize]) -> Vec<u32> {
        let mut r = idx;
        sizes
            .iter()
            .map(|n| {
                let d = r % n;
                r /= n;
                d as u32
            })
            .collect()
    }
    fn index(d: &[u32], strides: &[usize]) -> usize {
        d.iter().zip(strides.iter()).map(|(a, b)| *a as usize * b).sum()
    }

    fn build(ctx: &Context, sys: &TransitionSystem, nodes: &[ExprRef]) -> Tab {
        let ts = Ts::new(ctx, sys);
        let st_alph: Vec<Vec<Val>> = ts.state_tys.iter().map(|t| Ts::all_values(*t)).collect();
        let in_alph: Vec<Vec<Val>> = ts.input_tys.iter().map(|t| Ts::all_values(*t)).collect();
        let strides = |sizes: &[usize]| {
            let mut s = vec![];
            let mut acc = 1usize;
            for n in sizes {
                s.push(acc);
                acc *= n;
            }
            (s, acc)
        };
        let st_sizes: Vec<usize> = st_alph.iter().map(|a| a.len()).collect();
        let in_sizes: Vec<usize> = in_alph.iter().map(|a| a.len()).collect();
        let (st_strides, ns) = strides(&st_sizes);
        let (in_strides, ni) = strides(&in_sizes);
        let nn = nodes.len();
        let nk = sys.states.len();
        let digit_of: Vec<FxHashMap<String, u32>> = st_alph.iter().map(|a| a.iter().enumerate().map(|(i, v)| (v.key(), i as u32)).collect()).collect();
        let mut dict: Vec<FxHashMap<String, u32>> = vec![FxHashMap::default(); nn];
        let mut val = vec![0u32; ns * ni * nn];
        let mut next = vec![FREE; ns * ni * nk.max(1)];
        for s in 0..ns {
            let sd = Self::digits(s, &st_sizes);
            let st: Vec<Val> = sd.iter().enumerate().map(|(k, d)| st_alph[k][*d as usize].clone()).collect();
            for i in 0..ni {
                let id = Self::digits(i, &in_sizes);
                let inp: Vec<Val> = id.iter().enumerate().map(|(k, d)| in_alph[k][*d as usize].clone()).collect();
                let env = ts.env(&st, &inp);
                let mut memo = FxHashMap::default();
                for (n, e) in nodes.iter().enumerate() {
                    let v = eval_ref_memo(ctx, *e, &env, &mut memo);
                    let fresh = dict[n].len() as u32;
                    let idv = *dict[n].entry(v.key()).or_insert(fresh);
                    val[(s * ni + i) * nn + n] = idv;
                }
                for (k, stt) in sys.states.iter().enumerate() {
                    if let Some(nx) = stt.next {
                        let v = eval_ref_memo(ctx, nx, &env, &mut memo);
                        next[(s * ni + i) * nk + k] = digit_of[k][&v.key()];
                    }
                }
            }
        }
        // initial states: every assignment of the init-less states, inits evaluated in state order
        let initless: Vec<bool> = sys.states.iter().map(|s| s.init.is_none()).collect();
        let nextless: Vec<bool> = sys.states.iter().map(|s| s.next.is_none()).collect();
        let mut partial: Vec<Vec<u32>> = vec![vec![]];
        for (k, stt) in sys.states.iter().enumerate() {
            let mut nxt = vec![];
            for p in partial.iter() {
                match stt.init {
                    None => {
                        for d in 0..st_sizes[k] {
                            let mut q = p.clone();
                            q.push(d as u32);
                            nxt.push(q);
                        }
                    }
                    Some(init) => {
                        let mut env = Env::default();
                        for (j, d) in p.iter().enumerate() {
                            env.insert(sys.states[j].symbol, st_alph[j][*d as usize].clone());
                        }
                        let v = eval_ref(ctx, init, &env);
                        let mut q = p.clone();
                        q.push(digit_of[k][&v.key()]);
                        nxt.push(q);
                    }
                }
            }
            partial = nxt;
        }
        let initial = partial.into_iter().map(|d| { let i = Self::index(&d, &st_strides); (d, i) }).collect();
        Tab { ns, ni, nn, n_state_syms: nk, st_sizes, st_strides, in_sizes, in_strides, val, next, initial, initless, nextless, st_alph, in_alph }
    }

    #[inline]
    fn v(&self, s: usize, i: usize, n: usize) -> u32 {
        self.val[(s * self.ni + i) * self.nn + n]
    }
    fn show_state(&self, s: usize) -> String {
        let d = Self::digits(s, &self.st_sizes);
        vkey(&d.iter().enumerate().map(|(k, x)| self.st_alph[k][*x as usize].clone()).collect::<Vec<_>>())
    }
    fn show_input(&self, i: usize) -> String {
        let d = Self::digits(i, &self.in_sizes);
        vkey(&d.iter().enumerate().map(|(k, x)| self.in_alph[k][*x as usize].clone()).collect::<Vec<_>>())
    }
    /// all input indices that agree with `i` outside input `j` (including `i` itself)
    fn input_variants(&self, i: usize, j: usize) -> Vec<usize> {
        let d = Self::digits(i, &self.in_sizes);
        let base = i - d[j] as usize * self.in_strides[j];
        (0..self.in_sizes[j]).map(|x| base + x * self.in_strides[j]).collect()
    }
    fn state_variants(&self, s: usize, k: usize) -> Vec<usize> {
        let d = Self::digits(s, &self.st_sizes);
        let base = s - d[k] as usize * self.st_strides[k];
        (0..self.st_sizes[k]).map(|x| base + x * self.st_strides[k]).collect()
    }
    /// successor pairs of (s,i) / (s2,i2): next-less states take every value, the same on both
    /// sides except for state `xk` (the perturbed one) which takes every pair of values
    fn successor_pairs(&self, s: usize, i: usize, s2: usize, i2: usize, xk: Option<usize>, out: &mut Vec<(u32, u32)>) {
        let nk = self.n_state_syms;
        let mut acc: Vec<(usize, usize)> = vec![(0, 0)];
        for k in 0..nk {
            let d1 = self.next[(s * self.ni + i) * nk + k];
            let d2 = self.next[(s2 * self.ni + i2) * nk + k];
            let stride = self.st_strides[k];
            if d1 != FREE {
                for a in acc.iter_mut() {
                    a.0 += d1 as usize * stride;
                    a.1 += d2 as usize * stride;
                }
            } else {
                let mut nxt = Vec::with_capacity(acc.len() * self.st_sizes[k]);
                for a in acc.iter() {
                    for x in 0..self.st_sizes[k] {
                        if Some(k) == xk {
                            for y in 0..self.st_sizes[k] {
                                nxt.push((a.0 + x * stride, a.1 + y * stride));
                            }
                        } else {
                            nxt.push((a.0 + x * stride, a.1 + x * stride));
                        }
                    }
                }
                acc = nxt;
            }
        }
        out.extend(acc.into_iter().map(|(a, b)| (a as u32, b as u32)));
    }
}

pub fn check_system(spec: &SysSpec, horizon: usize) -> (Vec<Fail>, Info) {
    let mut info = Info::default();
    // the first failure per (class, variant); the checks go on so that the syntactic and the
    // semantic oracle both get to speak
    let mut fails: Vec<Fail> = vec![];
    fn record(fails: &mut Vec<Fail>, f: Fail) {
        if !fails.iter().any(|g| g.class == f.class && g.variant == f.variant) {
            fails.push(f);
        }
    }
    CURRENT_SPEC.with(|c| *c.borrow_mut() = spec.to_json().to_string());
    let mut ctx = Context::default();
    let built = spec.build(&mut ctx);
    let sys = built.sys;
    let ctx = ctx;
    let nodes = nodes_of(&ctx, &root_exprs(&sys));
    info.roots = nodes.len() as u64;
    // symbol universe: inputs first, then states
    let universe: Vec<ExprRef> = sys.inputs.iter().cloned().chain(sys.states.iter().map(|s| s.symbol)).collect();
    let n_in = sys.inputs.len();
    let root_shape = |r: ExprRef| -> String {
        let role = observables(&ctx, &sys, false).into_iter().find(|o| o.e == r).map(|o| o.kind).unwrap_or("inner");
        role.to_string()
    };
    let sym_kind = |e: ExprRef| if sys.inputs.contains(&e) { "input" } else if sys.states.iter().any(|s| s.symbol == e) { "state" } else { "foreign" };
    let name_of = |e: ExprRef| show_expr(&ctx, e);

    // ---- (a) and (b) for every root and variant; remember the reported cones
    // excluded[variant][x] = node indices whose reported cone does not contain universe[x]
    let mut excluded: [Vec<Vec<usize>>; 3] = [vec![vec![]; universe.len()], vec![vec![]; universe.len()], vec![vec![]; universe.len()]];
    for (ri, r) in nodes.iter().enumerate() {
        for v in 0..3 {
            info.cone_calls += 1;
            let w = ty_width(ty_of(&ctx, *r));
            let real = match real_cone(&ctx, &sys, *r, v) {
                Ok(c) => c,
                Err(p) => {
                    record(&mut fails, Fail { class: format!("panic|{}", p.file()), variant: VARIANTS[v], shape: root_shape(*r), width: w, what: format!("cone ({}) of `{}` panicked: {} ({})", VARIANTS[v], name_of(*r), p.msg, p.short_loc()) });
                    continue;
                }
            };
            let mine = my_cone(&ctx, &sys, *r, v <= 1, v == 0);
            for (x, u) in universe.iter().enumerate() {
                if !mine.contains(u) {
                    let free = match (x >= n_in, v) {
                        (false, _) | (_, 2) => true,
                        (true, 1) => sys.states[x - n_in].init.is_none(),
                        (true, _) => sys.states[x - n_in].init.is_none() || sys.states[x - n_in].next.is_none(),
                    };
                    if free {
                        info.oracle_opportunities[v] += 1;
                    }
                }
            }
            if mine.len() < universe.len() {
                info.strict_subset[v] += 1;
            } else if v == 0 {
                info.full_cone_all += 1;
            }
            for e in real.iter() {
                if !universe.contains(e) {
                    record(&mut fails, Fail { class: "foreign-symbol".into(), variant: VARIANTS[v], shape: root_shape(*r), width: w, what: format!("the {} cone of `{}` contains `{}` which is neither an input nor a state", VARIANTS[v], name_of(*r), name_of(*e)) });
                }
            }
            let real_set: BTreeSet<ExprRef> = real.iter().cloned().collect();
            if let Some(extra) = real_set.difference(&mine).next() {
                record(
                    &mut fails,
                    Fail { class: "not-tight".into(), variant: VARIANTS[v], shape: format!("{}/{}", root_shape(*r), sym_kind(*extra)), width: w, what: format!("the {} cone of `{}` contains {} on which it does not depend through children{}{} links (reported [{}])", VARIANTS[v], name_of(*r), name_of(*extra), if v <= 1 { "/init" } else { "" }, if v == 0 { "/next" } else { "" }, real.iter().map(|e| name_of(*e)).collect::<Vec<_>>().join(", ")) },
                );
            }
            if let Some(missing) = mine.difference(&real_set).next() {
                record(
                    &mut fails,
                    Fail { class: "missing-symbol".into(), variant: VARIANTS[v], shape: format!("{}/{}", root_shape(*r), sym_kind(*missing)), width: w, what: format!("the {} cone of `{}` lacks {} which the root reaches through children{}{} links (reported [{}])", VARIANTS[v], name_of(*r), name_of(*missing), if v <= 1 { "/init" } else { "" }, if v == 0 { "/next" } else { "" }, real.iter().map(|e| name_of(*e)).collect::<Vec<_>>().join(", ")) },
                );
            }
            for (x, u) in universe.iter().enumerate() {
                if !real_set.contains(u) {
                    excluded[v][x].push(ri);
                }
            }
        }
    }

    // ---- (c) sufficiency by exhaustive perturbation on the tabulated reference semantics
    let tab = Tab::build(&ctx, &sys, &nodes);
    let insufficient = |v: usize, ri: usize, x: usize, detail: String| -> Fail {
        let r = nodes[ri];
        Fail {
            class: "insufficient".into(),
            variant: VARIANTS[v],
            shape: format!("{}/{}", root_shape(r), if x < n_in { "input" } else { "state" }),
            width: ty_width(ty_of(&ctx, r)),
            what: format!("{} is outside the {} cone of `{}` but changing it changes the value: {detail}", name_of(universe[x]), VARIANTS[v], name_of(r)),
        }
    };
    // once a variant has produced an `insufficient` failure its comparisons stop
    let mut dead = [false; 3];
    // combinational: states and inputs are free variables
    'comb: for (x, roots) in excluded[2].iter().enumerate() {
        if roots.is_empty() {
            continue;
        }
        info.symbols_perturbed[2] += 1;
        for s in 0..tab.ns {
            for i in 0..tab.ni {
                let alts: Vec<(usize, usize)> = if x < n_in { tab.input_variants(i, x).into_iter().map(|i2| (s, i2)).collect() } else { tab.state_variants(s, x - n_in).into_iter().map(|s2| (s2, i)).collect() };
                for (s2, i2) in alts {
                    if (s2, i2) <= (s, i) {
                        continue; // unordered pairs once
                    }
                    info.perturbed_steps[2] += 1;
                    for ri in roots.iter() {
                        info.root_compares += 1;
                        if tab.v(s, i, *ri) != tab.v(s2, i2, *ri) {
                            record(&mut fails, insufficient(2, *ri, x, format!("states [{}] inputs [{}] versus states [{}] inputs [{}]", tab.show_state(s), tab.show_input(i), tab.show_state(s2), tab.show_input(i2))));
                            dead[2] = true;
                            break 'comb;
                        }
                    }
                }
            }
        }
    }
    // init and full: pairs of executions that differ only in the free choices of x
    for x in 0..universe.len() {
        let xk = if x >= n_in { Some(x - n_in) } else { None };
        let x_initless = xk.map(|k| tab.initless[k]).unwrap_or(false);
        let x_nextless = xk.map(|k| tab.nextless[k]).unwrap_or(false);
        let roots_init = &excluded[1][x];
        let roots_full = &excluded[0][x];
        let init_perturbable = xk.is_none() || x_initless;
        let full_perturbable = xk.is_none() || x_initless || x_nextless;
        let do_init = !roots_init.is_empty() && init_perturbable && !dead[1];
        let do_full = !roots_full.is_empty() && full_perturbable && !dead[0];
        if !do_init && !do_full {
            continue;
        }
        // layer 0
        let mut layer: Vec<(u32, u32)> = vec![];
        if x_initless {
            let k = xk.unwrap();
            for (d1, s1) in tab.initial.iter() {
                for (d2, s2) in tab.initial.iter() {
                    if (0..d1.len()).all(|j| j == k || !tab.initless[j] || d1[j] == d2[j]) {
                        layer.push((*s1 as u32, *s2 as u32));
                    }
                }
            }
        } else {
            for (_, s1) in tab.initial.iter() {
                layer.push((*s1 as u32, *s1 as u32));
            }
        }
        layer.sort();
        layer.dedup();
        if do_init {
            info.symbols_perturbed[1] += 1;
        }
        if do_full {
            info.symbols_perturbed[0] += 1;
        }
        let steps = if do_full { horizon } else { 0 };
        for t in 0..=steps {
            info.pair_states += layer.len() as u64;
            info.max_layer = info.max_layer.max(layer.len() as u64);
            let mut next: Vec<(u32, u32)> = vec![];
            for (s, s2) in layer.iter().map(|(a, b)| (*a as usize, *b as usize)) {
                for i in 0..tab.ni {
                    let i2s = if x < n_in { tab.input_variants(i, x) } else { vec![i] };
                    for i2 in i2s {
                        if do_full && !dead[0] {
                            info.perturbed_steps[0] += 1;
                            for ri in roots_full.iter() {
                                info.root_compares += 1;
                                if tab.v(s, i, *ri) != tab.v(s2, i2, *ri) {
                                    record(&mut fails, insufficient(0, *ri, x, format!("at step {t} one execution is in state [{}] with inputs [{}], the perturbed one in state [{}] with inputs [{}]", tab.show_state(s), tab.show_input(i), tab.show_state(s2), tab.show_input(i2))));
                                    dead[0] = true;
                                    break;
                                }
                            }
                        }
                        if t == 0 && do_init && !dead[1] {
                            info.perturbed_steps[1] += 1;
                            for ri in roots_init.iter() {
                                info.root_compares += 1;
                                if tab.v(s, i, *ri) != tab.v(s2, i2, *ri) {
                                    record(&mut fails, insufficient(1, *ri, x, format!("right after initialisation: state [{}] inputs [{}] versus state [{}] inputs [{}]", tab.show_state(s), tab.show_input(i), tab.show_state(s2), tab.show_input(i2))));
                                    dead[1] = true;
                                    break;
                                }
                            }
                        }
                        if t < steps && !dead[0] {
                            tab.successor_pairs(s, i, s2, i2, if x_nextless { xk } else { None }, &mut next);
                        }
                    }
                }
            }
            next.sort_unstable();
            next.dedup();
            layer = next;
        }
    }
    (fails, info)
}

/// Systems far larger than the enumerated family (more than 2^16 states and inputs): only membership and
/// tightness are decided for them (the reported cone equals the independent dependency search, no duplicates) -
/// the perturbation oracle cannot tabulate them. Registers acc_i' = acc_i + din_(i mod 3) (+ acc_(i-1) for every
/// 4096th), every second one with an init that reads the previous register.
fn large_systems_check(rep: &Report) {
    use patronus::system::State;
    let n = (1usize << 16) + 5;
    let mut ctx = Context::default();
    let mut sys = TransitionSystem::new("large".to_string());
    let dins: Vec<ExprRef> = (0..3).map(|k| ctx.bv_symbol(&format!("din{k}"), 2)).collect();
    for d in dins.iter() {
        sys.add_input(&ctx, *d);
    }
    let syms: Vec<ExprRef> = (0..n).map(|i| ctx.bv_symbol(&format!("acc_{i}"), 2)).collect();
    for i in 0..n {
        let mut nx = ctx.add(syms[i], dins[i % 3]);
        if i > 0 && i % 4096 == 0 {
            nx = ctx.xor(nx, syms[i - 1]);
        }
        let init = if i % 2 == 1 { Some(ctx.not(syms[i - 1])) } else { None };
        sys.add_state(&ctx, State { symbol: syms[i], init, next: Some(nx) });
    }
    let picks = [0usize, 1, 2, 4095, 4096, 4097, 32767, 32768, 65534, 65535, 65536, 65537, n - 1];
    for &i in picks.iter() {
        let st_next = sys.states[i].next.unwrap();
        for root in [syms[i], st_next] {
            for v in 0..3 {
                rep.add("large_system_cone_calls", 1);
                rep.add("evaluations", 1);
                let want = my_cone(&ctx, &sys, root, v <= 1, v == 0);
                let fail = |class: &str, what: String| {
                    rep.violation(Violation {
                        sig: format!("C17|{class}|{}|w2-32|large-system", VARIANTS[v]),
                        what: format!("[system with {n} registers] {} cone of {}: {what}", VARIANTS[v], if root == syms[i] { format!("acc_{i}") } else { format!("the next function of acc_{i}") }),
                        case: json!({"kind": "large", "register": i}),
                        order: (1u64 << 57) + i as u64,
                    });
                };
                match real_cone(&ctx, &sys, root, v) {
                    Err(p) => fail("panic", format!("panicked: {} ({})", p.msg, p.short_loc())),
                    Ok(got) => {
                        let set: BTreeSet<ExprRef> = got.iter().cloned().collect();
                        let name = |e: &ExprRef| ctx.get_symbol_name(*e).unwrap_or("?").to_string();
                        if set.len() != got.len() {
                            fail("duplicate-symbol", format!("a symbol is reported more than once ({} entries, {} distinct)", got.len(), set.len()));
                        } else if let Some(m) = want.iter().find(|e| !set.contains(e)) {
                            fail("missing-symbol", format!("`{}` is missing (reported: {} symbols, the dependency search reaches {})", name(m), set.len(), want.len()));
                        } else if let Some(x) = set.iter().find(|e| !want.contains(e)) {
                            fail("extra-symbol", format!("`{}` is reported although no dependency path reaches it", name(x)));
                        }
                    }
                }
            }
        }
    }
}

pub fn meta(rep: &mut Report) {
    rep.rule = "systems = S1 (full pools incl. div/rem) + S3(3) of skeletons K1..K7 (thorough: S1 + S3(4) + S2(32) + S3(5) of K1/K3/K4/K7) plus hand-built shapes and an array-input system; every sub-expression node of the system (state and input symbols included) is a root; cone_of_influence / _init / _comb are called on each. Oracle: (a) only declared inputs/states; (b) set-equal to an independent dependency search (children; state -> init for full+init, state -> next for full); (c) for every symbol x outside the reported cone and every pair of reference executions differing only in x's free choices (x an input: its value at every step; x an init-less state: its initial value; x a next-less state: its value after every step) the root has the same value at every step 0..3 (quick) / 0..5 (thorough) (full), at step 0 (init), under every valuation of all states and inputs (comb). All initial states, all inputs at every step, all values of next-less states are enumerated (pair-state search on a table of all node values). evaluations = cone calls; distinct_nontrivial = distinct systems in which at least one root's cone is a strict subset of the symbols (a perturbation ran); states = pair-states visited by the perturbation search; transitions = perturbed steps compared".into();
    rep.assumptions = vec![
        "executions are not restricted by the constraints (the cone is a property of the functions)".into(),
        "a state with an init expression has no free initial value; a state with a next function has no free later value".into(),
        "horizon 3 (quick) / 5 (thorough) steps for the full cone".into(),
    ];
}

fn report(spec: &SysSpec, horizon: usize, f: &Fail, order: u64, rep: &Report) {
    let (class, variant) = (f.class.clone(), f.variant);
    // every evaluation of the predicate tabulates the whole valuation space of the candidate: large hand-built
    // systems (8-bit registers) are reported as they are
    let min = if spec.state_bits() + spec.input_bits() > 12 { spec.clone() } else { shrink_spec(spec, &|s| check_system(s, horizon).0.iter().any(|g| g.class == class && g.variant == variant)) };
    let f2 = check_system(&min, horizon).0.into_iter().find(|g| g.class == class && g.variant == variant).unwrap_or_else(|| f.clone());
    let sig = format!("C17|{}|{}|{}|{}", f2.class, f2.variant, wclass(f2.width.max(1)), f2.shape);
    rep.violation(Violation { sig, what: format!("[{}] {}", sys_class(spec), f2.what), case: json!({"system": min.to_json(), "horizon": horizon, "found_in": spec.to_json()}), order });
}

pub fn run(opts: &Opts, rep: &Report) {
    let tier = tier_of(opts);
    let budget = Budget::new(opts.budget_s);
    let specs = system_family(tier, true);
    rep.add("systems", specs.len() as u64);
    let horizon = if tier.is_thorough() { HORIZON_THOROUGH } else { HORIZON_QUICK };
    rep.note("horizon", json!(horizon));
    let capped = AtomicBool::new(false);
    let skipped = AtomicU64::new(0);
    let failing: Collector<(SysSpec, Fail)> = Collector::default();
    let done = AtomicBool::new(false);
    large_systems_check(rep);
    std::thread::scope(|sc| {
    sc.spawn(|| runaway_watchdog(rep, &done));
    specs.par_iter().enumerate().for_each(|(idx, spec)| {
        if budget.exceeded() {
            capped.store(true, Ordering::Relaxed);
            skipped.fetch_add(1, Ordering::Relaxed);
            return;
        }
        let (fs, info) = check_system(spec, horizon);
        let mut c: BTreeMap<String, u64> = BTreeMap::new();
        c.insert("evaluations".into(), info.cone_calls);
        c.insert("traces_validated_against_impl".into(), info.cone_calls);
        c.insert("roots".into(), info.roots);
        c.insert("states".into(), info.pair_states);
        c.insert("transitions".into(), info.perturbed_steps.iter().sum());
        c.insert("root_value_compares".into(), info.root_compares);
        for v in 0..3 {
            c.insert(format!("strict_subset_cones:{}", VARIANTS[v]), info.strict_subset[v]);
            c.insert(format!("perturbed_steps:{}", VARIANTS[v]), info.perturbed_steps[v]);
            c.insert(format!("symbols_perturbed:{}", VARIANTS[v]), info.symbols_perturbed[v]);
            c.insert(format!("oracle_perturbation_opportunities:{}", VARIANTS[v]), info.oracle_opportunities[v]);
        }
        c.insert("full_cones_covering_all_symbols".into(), info.full_cone_all);
        rep.merge_counts(&c);
        rep.max("max_pair_layer", info.max_layer);
        if info.symbols_perturbed.iter().any(|n| *n > 0) {
            rep.distinct_hashes(&[hash64(&spec_key(spec))]);
        }
        if !fs.is_empty() {
            rep.add("systems_failing", 1);
        }
        for f in fs {
            failing.offer(&format!("{}|{}|{}", f.class, f.variant, f.shape), idx as u64, || (spec.clone(), f.clone()));
        }
        if idx % 5003 == 11 {
            rep.sample(json!({"system": spec.to_json(), "roots": info.roots, "strict_subset_cones": info.strict_subset, "pair_states": info.pair_states, "perturbed_steps": info.perturbed_steps}));
        }
    });
    let failing = failing.drain();
    // one at a time: a report re-tabulates its system many times while shrinking
    for (order, (spec, f)) in failing.iter() {
        report(spec, horizon, f, *order, rep);
    }
    done.store(true, Ordering::Relaxed);
    });
    if capped.load(Ordering::Relaxed) {
        rep.cap_hit(&format!("wall budget {}s: {} systems not checked", opts.budget_s, skipped.load(Ordering::Relaxed)));
    }
    // vacuity guard (oracle side): strict-subset cones and perturbations for every variant
    for v in 0..3 {
        if rep.get(&format!("strict_subset_cones:{}", VARIANTS[v])) == 0 || rep.get(&format!("oracle_perturbation_opportunities:{}", VARIANTS[v])) == 0 {
            eprintln!("C17 vacuity guard: no root with a strict-subset {} cone / no perturbation was run", VARIANTS[v]);
            std::process::exit(2);
        }
    }
}

pub fn replay(case: &Value, rep: &Report) {
    if case["kind"] == "large" {
        large_systems_check(rep);
        return;
    }
    let spec = SysSpec::from_json(&case["system"]).expect("system");
    let horizon = case["horizon"].as_u64().unwrap_or(HORIZON_QUICK as u64) as usize;
    let done = AtomicBool::new(false);
    std::thread::scope(|sc| {
        sc.spawn(|| runaway_watchdog(rep, &done));
        for f in check_system(&spec, horizon).0 {
            report(&spec, horizon, &f, 0, rep);
        }
        done.store(true, Ordering::Relaxed);
    });
}
