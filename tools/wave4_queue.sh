#!/bin/bash
# processes IDs appended to /verif/scratch/w4/queue one at a time (PKG after a colon), until a line "END"
Q=/verif/scratch/w4/queue$1; touch $Q; n=0
while true; do
  total=$(wc -l < $Q)
  if [ $n -lt $total ]; then
    n=$((n+1)); line=$(sed -n "${n}p" $Q)
    [ "$line" = "END" ] && break
    id=${line%%:*}; pkg=${line#*:}; [ "$pkg" = "$line" ] && pkg=patronus
    /verif/tools/wave4.sh $id $pkg
  else sleep 10; fi
done
