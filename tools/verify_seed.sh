#!/bin/bash
# tools/verify_seed.sh <worktree> <change.diff> <demo.rs> <test-name> [extra cargo test args]
# Confirms in a scratch worktree: (a) the change compiles, (b) the repository's baseline suite still
# passes with it, (c) the demonstration fails with the change and passes without it.
set -u
PKG="${PKG:-patronus}"
WT="$1"; DIFF="$(readlink -f "$2")"; DEMO="$(readlink -f "$3")"; NAME="$4"; shift 4
cd "$WT" || exit 2
git checkout -q -- . ; rm -f $PKG/tests/$NAME.rs
mkdir -p $PKG/tests; cp "$DEMO" $PKG/tests/$NAME.rs
echo "== demo WITHOUT change"
mkdir -p $PKG/tests; cargo test -p $PKG --offline --test $NAME "$@" 2>&1 | grep -E "^test result|^test .*FAILED" | head -5
git apply "$DIFF" || { echo "patch failed"; exit 2; }
echo "== demo WITH change"
mkdir -p $PKG/tests; cargo test -p $PKG --offline --test $NAME "$@" 2>&1 | grep -E "^test result|^test .*FAILED|^error" | head -8
rm -f $PKG/tests/$NAME.rs
echo "== baseline WITH change"
python3 /verif/tools/baseline.py "$WT"
git checkout -q -- . ; git status --short | head -3
