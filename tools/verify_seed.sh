#!/bin/bash
# tools/verify_seed.sh <worktree> <change.diff> <demo.rs> <test-name> [extra cargo test args]
# Confirms in a scratch worktree: (a) the change compiles, (b) the repository's baseline suite still
# passes with it, (c) the demonstration fails with the change and passes without it.
set -u
WT="$1"; DIFF="$(readlink -f "$2")"; DEMO="$(readlink -f "$3")"; NAME="$4"; shift 4
cd "$WT" || exit 2
git checkout -q -- . ; rm -f patronus/tests/$NAME.rs
cp "$DEMO" patronus/tests/$NAME.rs
echo "== demo WITHOUT change"
cargo test -p patronus --offline --test $NAME "$@" 2>&1 | grep -E "^test result|^test .*FAILED" | head -5
git apply "$DIFF" || { echo "patch failed"; exit 2; }
echo "== demo WITH change"
cargo test -p patronus --offline --test $NAME "$@" 2>&1 | grep -E "^test result|^test .*FAILED|^error" | head -8
rm -f patronus/tests/$NAME.rs
echo "== baseline WITH change"
python3 /verif/tools/baseline.py "$WT"
git checkout -q -- . ; git status --short | head -3
