#!/bin/bash
# tools/run_seed.sh <patch.diff> <ID> [quick|thorough]
# Applies a seeded change to /repo, runs ./check <ID>, and ALWAYS reverts /repo afterwards.
# Prints the check's summary line and verdict; exit code is the check's exit code.
set -u
PATCH="$(readlink -f "$1")"; ID="$2"; TIER="${3:-quick}"
# hold the build lock of ./check for the whole time /repo is mutated; use a target dir of our own so that
# binaries of concurrently running checks are never replaced
mkdir -p /verif/scratch; exec 8>/verif/scratch/repo.lock; flock 8
export PV_NO_BUILD_LOCK=1 PV_TARGET_DIR=/verif/harness/target-seed
cd /repo || exit 2
if [ -n "$(git status --porcelain --untracked-files=no | grep -v 'inputs/repair')" ]; then
  echo "refusing: /repo has uncommitted changes"; git status --short | head; exit 2
fi
git apply --check "$PATCH" || { echo "patch does not apply"; exit 2; }
git apply "$PATCH"
revert() { git -C /repo checkout -- . ; }
trap revert EXIT
cd /verif
OUT="$(./check "$ID" "$TIER" 2>&1)"; RC=$?
echo "$OUT" | grep -E "^\[$ID\]|^VIOLATION|signature:|MACHINERY" | head -12
echo "exit=$RC"
exit $RC
