#!/bin/bash
# tools/thorough_all.sh [IDs...]  — runs the thorough tier of the given checks (default: all) one after another,
# prints one summary line per check. Meant for `vp run -- tools/thorough_all.sh ...` (builds the snapshot's harness first).
cd "$(dirname "$0")/.." || exit 2
./setup.sh >/dev/null 2>&1
IDS="$@"; [ -z "$IDS" ] && IDS="C01 C02 C03 C04 C05 C06 C07 C08 C09 C10 C11 C12 C13 C14 C15 C16 C17 C18 C19 C20"
for i in $IDS; do
  s=$(date +%s); ./check $i thorough > scratch/t-$i.log 2>&1; rc=$?; e=$(date +%s)
  echo "$i rc=$rc t=$((e-s))s viol=$(grep -c ^VIOLATION scratch/t-$i.log) kf=$(grep -c ^KNOWN-FINDING scratch/t-$i.log)"
  grep -E "^VIOLATION|signature:|MACHINERY" scratch/t-$i.log | head -10
  grep -E "^\[$i\]" scratch/t-$i.log | tail -2
done
