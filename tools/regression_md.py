#!/usr/bin/env python3
"""tools/regression_md.py — writes seeded/REGRESSION.md from the result files of tools/par_seeds.py runs
(scratch/w4/rerun*.json, regress.json, c10t.json): which stored seed was run against which check, and the verdict."""
import json, glob, os, re, subprocess
rows = {}
def add(name, r, tier):
    rows[name] = (r["property"], tier, r["verdict"], r["signatures"][:160])
for f, tier in [("scratch/w4/regress.json", "quick"), ("scratch/w4/rerun.json", "quick"), ("scratch/w4/rerun2.json", "quick"), ("scratch/w4/rerun3.json", "quick")]:
    p = os.path.join("/verif", f)
    if os.path.exists(p):
        for r in json.load(open(p)):
            n = r["name"]
            m = re.match(r"(C\d\d)-w4-(\d)$", n)
            if m:
                n = f"{m.group(1)}-{6 + int(m.group(2))}"
            if n.startswith("m13"):
                continue
            add(n, r, tier)
# a run that was stopped early leaves no json: its finished lines are in the .out file
po = "/verif/scratch/w4/regress.out"
if not os.path.exists("/verif/scratch/w4/regress.json") and os.path.exists(po):
    for l in open(po):
        m = re.match(r"(C\d\d-\d)\s+(C\d\d)\s+rc=(-?\d+)\s+(\S+)\s+\d+s\s*(.*)", l)
        if m:
            rows[m.group(1)] = (m.group(2), "quick", m.group(4), m.group(5)[:160])
head = subprocess.run(["git", "-C", "/verif", "rev-parse", "--short", "HEAD"], capture_output=True, text=True).stdout.strip()
out = ["# Regression of stored seeded changes against the checks", "",
       f"Written by tools/regression_md.py from tools/par_seeds.py result files (seeds applied in scratch worktrees of /repo, never in /repo itself); /verif at {head} or a few commits earlier (a seed's row belongs to the run it came from).",
       "Wave 4 (`Cxx-7`, `Cxx-8`): all 40. Waves 1-3: a sample (`Cxx-2`, `Cxx-4`, `Cxx-6` of C01..C06) was re-run against the strengthened checks before the run was stopped for time; the others were last run at the end of round 1.", "",
       "| seed | check | tier | verdict | signatures (first three) |", "|---|---|---|---|---|"]
for n in sorted(rows):
    p, t, v, s = rows[n]
    out.append(f"| {n} | {p} | {t} | {v} | {s.replace('|', '/')} |")
n_c = sum(1 for r in rows.values() if r[2] == "CAUGHT")
out += ["", f"{n_c} of {len(rows)} reported.", "",
        "Not reported in the quick tier: see DESIGN.md §10.7 (C10-7 needs one particular 16-state table and unsat-core order; the table is part of the thorough family)."]
open("/verif/seeded/REGRESSION.md", "w").write("\n".join(out) + "\n")
print(n_c, "of", len(rows))
