#!/usr/bin/env python3
"""tools/store_seed.py <name> <property> <out-dir> <k> <needs> <caught-by> [demo-placement]
Copies change<k>.diff / demo<k>.rs / notes<k>.md of a seeded-change agent into /verif/seeded/<name>/."""
import json, shutil, sys, os
name, prop, out, k, needs, caught = sys.argv[1:7]
place = sys.argv[7] if len(sys.argv) > 7 else ""
d = f"/verif/seeded/{name}"
os.makedirs(d, exist_ok=True)
shutil.copy(f"{out}/change{k}.diff", f"{d}/patch.diff")
shutil.copy(f"{out}/demo{k}.rs", f"{d}/demo.rs")
if os.path.exists(f"{out}/notes{k}.md"):
    shutil.copy(f"{out}/notes{k}.md", f"{d}/notes.md")
meta = {
    "property": prop,
    "origin": "written by an independent sub-agent that saw only the property text and a scratch worktree of /repo (nothing from /verif)",
    "needs_to_manifest": needs,
    "demonstration": {"file": "demo.rs", "placement": place or f"patronus/tests/<name>.rs", "fails_with_change": True, "passes_without_change": True},
    "confirmed_by_me": [
        "tools/verify_seed.sh <worktree> patch.diff demo.rs <test-name>: demo passes without / fails with the change; tools/baseline.py on the worktree with the change: 115/115 stable tests still pass",
        f"tools/run_seed.sh patch.diff {prop} quick on /repo (applied, checked, reverted)",
    ],
    "caught_by": caught,
}
json.dump(meta, open(f"{d}/meta.json", "w"), indent=1)
print("stored", d)
