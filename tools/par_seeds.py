#!/usr/bin/env python3
"""tools/par_seeds.py [--slots N] [--threads T] [--tier quick|thorough] [--out FILE] ITEM...

Runs seeded changes against the checks WITHOUT touching /repo: every slot owns a scratch git worktree of
/repo (/tmp/sv/s<n>/repo) and a relocated copy of /verif (/tmp/sv/s<n>/verif, harness path-deps rewritten to the
slot's worktree, PV_VERIF_ROOT / PV_REPO_ROOT set), so several seeds run side by side and background runs that
build from /repo are never disturbed.

ITEM is  <seed-name>            (a directory /verif/seeded/<seed-name>/ with patch.diff and meta.json)
     or  <name>=<patch>:<ID>    (any patch file, checked with property <ID>)
     or  base:<ID>              (no patch: the unchanged tree, must be quiet)

Prints one line per item: name, property, exit code of the check, verdict, signatures.
`--cleanup` removes all slots (worktrees and build output)."""
import json, os, subprocess, sys, threading, queue, shutil, time, re, fcntl

ROOT = "/tmp/sv"

def sh(cmd, **kw):
    return subprocess.run(cmd, shell=isinstance(cmd, str), stdout=subprocess.PIPE, stderr=subprocess.STDOUT, text=True, **kw)

def setup_slot(n):
    d = f"{ROOT}/s{n}"
    repo, verif = f"{d}/repo", f"{d}/verif"
    os.makedirs(d, exist_ok=True)
    if not os.path.exists(repo):
        r = sh(["git", "-C", "/repo", "worktree", "add", "--detach", repo, "HEAD"])
        if r.returncode != 0:
            print(r.stdout); sys.exit(2)
    else:
        sh(["git", "-C", repo, "checkout", "-q", "--detach", sh(["git", "-C", "/repo", "rev-parse", "HEAD"]).stdout.strip()])
        sh(["git", "-C", repo, "checkout", "-q", "--", "."])
    fresh = not os.path.exists(f"{verif}/harness/target")
    os.makedirs(verif, exist_ok=True)
    sh(["rsync", "-a", "--delete", "--exclude", "/.git", "--exclude", "/harness/target*", "--exclude", "/scratch",
        "--exclude", "/evidence", "--exclude", "/replays", "--exclude", "/seeded", "--exclude", "/bin", "/verif/", verif + "/"])
    for sub in ("scratch", "evidence", "replays", "bin/solvers"):
        os.makedirs(f"{verif}/{sub}", exist_ok=True)
    p = f"{verif}/harness/Cargo.toml"
    s = open(p).read().replace('path = "/repo/', f'path = "{repo}/')
    open(p, "w").write(s)
    if fresh and os.path.exists("/verif/harness/target"):
        sh(["cp", "-a", "/verif/harness/target", f"{verif}/harness/target"])
    for s_ in ("z3", "cvc5", "bitwuzla", "yices-smt2"):
        l = f"{verif}/bin/solvers/{s_}"
        if os.path.lexists(l):
            os.remove(l)
        os.symlink(f"{verif}/harness/target/release/refsmt", l)
    shutil.copy("/repo/Cargo.lock", f"{verif}/harness/Cargo.lock")
    return d

def run_item(slot_dir, item, tier, threads):
    repo, verif = f"{slot_dir}/repo", f"{slot_dir}/verif"
    if item.startswith("base:"):
        name, patch, pid = item, None, item.split(":")[1]
    elif "=" in item:
        name, rest = item.split("=", 1)
        patch, pid = rest.rsplit(":", 1)
    else:
        name = item
        patch = f"/verif/seeded/{name}/patch.diff"
        pid = json.load(open(f"/verif/seeded/{name}/meta.json"))["property"]
    sh(["git", "-C", repo, "checkout", "-q", "--", "."])
    sh(["git", "-C", repo, "clean", "-fdq", "--", "patronus", "patronus-dse", "patronus-egraphs", "tools"])
    if patch:
        r = sh(["git", "-C", repo, "apply", os.path.abspath(patch)])
        if r.returncode != 0:
            return name, pid, 2, "PATCH-DOES-NOT-APPLY", r.stdout.strip()[:200], 0
    env = dict(os.environ)
    env.update(PV_VERIF_ROOT=verif, PV_REPO_ROOT=repo, PV_NO_BUILD_LOCK="1")
    if threads:
        env.update(RAYON_NUM_THREADS=str(threads), PV_THREADS=str(threads))
    t0 = time.time()
    r = sh(["./check", pid, tier], cwd=verif, env=env)
    dt = time.time() - t0
    os.makedirs("/verif/scratch/par_seeds", exist_ok=True)
    open(f"/verif/scratch/par_seeds/{name.replace('/', '_')}.log", "w").write(r.stdout)
    sigs = re.findall(r"signature:\s*(\S.*)", r.stdout)
    viol = [l for l in r.stdout.splitlines() if l.startswith("VIOLATION")]
    mach = [l for l in r.stdout.splitlines() if "MACHINERY" in l]
    if r.returncode == 1 and viol:
        verdict = "CAUGHT"
    elif r.returncode == 0:
        verdict = "quiet"
    else:
        verdict = "MACHINERY(rc=%d)" % r.returncode
    sh(["git", "-C", repo, "checkout", "-q", "--", "."])
    return name, pid, r.returncode, verdict, "; ".join(sigs[:3]) or "; ".join(mach[:2]), dt

def main():
    a = sys.argv[1:]
    slots, threads, tier, out = 3, 0, "quick", None
    items = []
    while a:
        x = a.pop(0)
        if x == "--slots": slots = int(a.pop(0))
        elif x == "--threads": threads = int(a.pop(0))
        elif x == "--tier": tier = a.pop(0)
        elif x == "--out": out = a.pop(0)
        elif x == "--cleanup":
            for d in sorted(os.listdir(ROOT)) if os.path.exists(ROOT) else []:
                sh(["git", "-C", "/repo", "worktree", "remove", "--force", f"{ROOT}/{d}/repo"])
            shutil.rmtree(ROOT, ignore_errors=True)
            sh(["git", "-C", "/repo", "worktree", "prune"])
            print("slots removed"); return
        else: items.append(x)
    slots = min(slots, max(1, len(items)))
    if not threads:
        threads = max(4, (os.cpu_count() or 16) // slots + 2)
    q = queue.Queue()
    for it in items: q.put(it)
    results, lock = [], threading.Lock()
    def worker(_n):
        # slots are shared between concurrent invocations of this tool: take the first one nobody holds
        os.makedirs(ROOT, exist_ok=True)
        held = None
        while held is None:
            for n in range(8):
                f = open(f"{ROOT}/s{n}.lock", "w")
                try:
                    fcntl.flock(f, fcntl.LOCK_EX | fcntl.LOCK_NB)
                    held = (n, f)
                    break
                except OSError:
                    f.close()
            if held is None:
                time.sleep(5)
        d = setup_slot(held[0])
        while True:
            try: it = q.get_nowait()
            except queue.Empty: return
            try:
                res = run_item(d, it, tier, threads)
            except Exception as e:  # machinery problem of this tool
                res = (it, "?", 2, "TOOL-ERROR", repr(e), 0)
            with lock:
                results.append(res)
                print("%-10s %-4s rc=%d %-16s %5.0fs  %s" % (res[0], res[1], res[2], res[3], res[5], res[4]), flush=True)
    ts = [threading.Thread(target=worker, args=(n,)) for n in range(slots)]
    for t in ts: t.start()
    for t in ts: t.join()
    if out:
        json.dump([dict(name=r[0], property=r[1], rc=r[2], verdict=r[3], signatures=r[4], seconds=round(r[5])) for r in sorted(results)], open(out, "w"), indent=1)
    bad = [r for r in results if r[3] != "CAUGHT" and not r[0].startswith("base:")]
    print(f"{len(results)} items, {len(results) - len(bad)} caught/ok, {len(bad)} not caught: {' '.join(r[0] for r in bad)}")

if __name__ == "__main__":
    main()
