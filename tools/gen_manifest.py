#!/usr/bin/env python3
"""Generate /verif/MANIFEST.json from the table below (kept in one place so it stays valid)."""
import json, os

CHECKS = {
 "C01": dict(level="exploration", engine="drv-expr", design="§4 C01",
   technique="bounded-exhaustive term enumeration (T1/T2/T3) x exhaustive/boundary assignments vs reference evaluator",
   text="Every term of the stated alphabet (all 35 operators, widths 1..8/31..33/63..65/127..129, literal shapes incl. shift amounts >= width and >= 2^32, up to 2-3 nested operators) is simplified by the real code (single expression, dense-cache simplifier, whole-system pass) and compared with the input under every assignment of a stated finite value space; exhaustive within those bounds, nothing sampled.",
   note="Trusted: pvcore reference evaluator/type checker (num-bigint, self-checked bit-level at start). Values beyond 8 symbol bits come from the boundary alphabet; terms deeper than 3 operators are not explored."),
 "C06": dict(level="exploration", engine="drv-expr", design="§4 C06",
   technique="bounded-exhaustive term enumeration x exhaustive/boundary assignments vs reference evaluator, canonicity and short-circuit checks",
   text="Every term over the implemented operators (no div/rem) in the stated alphabet is evaluated by eval_expr/eval_bv_expr/eval_array_expr (three value stores, sparse and dense arrays) under every assignment of a stated finite value space and compared with an independent num-bigint SMT-LIB evaluator; result canonicity and inner-node short-circuit are checked on every case.",
   note="Trusted: pvcore reference semantics. Values beyond 8 symbol bits come from the boundary alphabet."),
}

NOT_YET = {}

ALL = [f"C{i:02d}" for i in range(1, 21)]

def main():
    checks = []
    for pid in ALL:
        if pid not in CHECKS:
            continue
        c = CHECKS[pid]
        checks.append({
            "property_id": pid,
            "quick_cmd": f"./check {pid} quick",
            "thorough_cmd": f"./check {pid} thorough",
            "evidence_file": f"/verif/evidence/{pid}.json",
            "replay_cmd_template": f"./check {pid} --replay {{path}}",
            "engine": c["engine"],
            "level_claimed": {"category": c["level"], "text": c["text"], "design_ref": c["design"]},
            "level_note": c["note"],
            "technique": c["technique"],
        })
    na = [{"property_id": p, "reason": NOT_YET.get(p, "check not built yet (work in progress this round); the design in DESIGN.md §4 applies")} for p in ALL if p not in CHECKS]
    m = {
        "version": 1,
        "setup_cmd": "./setup.sh",
        "hooks": {
            "guard": "patronus_verif",
            "enable": "RUSTFLAGS=--cfg patronus_verif via /verif/harness/.cargo/config.toml (harness builds /repo crates by path)",
            "baseline_off_cmd": "python3 /verif/tools/baseline.py /repo",
            "source_commits": [],
            "add_only": True,
        },
        "engines": [
            {"name": "drv-expr", "path": "/verif/harness/drv-expr", "serves_properties": ["C01", "C06", "C12", "C13"], "kind_free_text": "bounded-exhaustive enumeration of terms / construction histories over the real expression code"},
        ],
        "checks": checks,
        "not_applicable": na,
        "notes": "All checks: ./check <ID> quick|thorough; exit 0 held / 1 VIOLATION / 2 machinery. Known findings: /verif/known_findings.jsonl.",
    }
    json.dump(m, open("/verif/MANIFEST.json", "w"), indent=1)
    print("checks:", len(checks), "not_applicable:", len(na))

main()
