#!/usr/bin/env python3
"""Generate /verif/MANIFEST.json from the table below (kept in one place so it stays valid)."""
import json, os

CHECKS = {
 "C01": dict(level="exploration", engine="drv-expr", design="§4 C01",
   technique="bounded-exhaustive term enumeration (T1/T2/T3) x exhaustive/boundary assignments vs reference evaluator",
   text="Every term of the stated alphabet (all 35 operators, widths 1..8/31..33/63..65/127..129, literal shapes incl. shift amounts >= width and >= 2^32, up to 2-3 nested operators) is simplified by the real code (single expression, dense-cache simplifier, whole-system pass) and compared with the input under every assignment of a stated finite value space; exhaustive within those bounds, nothing sampled. Two-child nestings (concat/slice, arrays: eq/ite/read/store over stores and constant arrays) are part of the T2 space. Both operands built by one operator over a common operand (every literal at widths <= 4), three nested slices, and bare leaves as roots of the whole-system pass are part of the space.",
   note="Trusted: pvcore reference evaluator/type checker (num-bigint, self-checked bit-level at start). Values beyond 8 symbol bits come from the boundary alphabet; terms deeper than 3 operators are not explored."),
 "C06": dict(level="exploration", engine="drv-expr", design="§4 C06",
   technique="bounded-exhaustive term enumeration x exhaustive/boundary assignments vs reference evaluator, canonicity and short-circuit checks",
   text="Every term over the implemented operators (no div/rem) in the stated alphabet is evaluated by eval_expr/eval_bv_expr/eval_array_expr (three value stores, sparse and dense arrays) under every assignment of a stated finite value space and compared with an independent num-bigint SMT-LIB evaluator; result canonicity and inner-node short-circuit are checked on every case. SymbolValueStore histories (define, update in reverse order through update_bv/update_array/update, clear, re-define) are replayed for every assignment; a wrong array equality is attributed to the known baa defect only on evidence (operands evaluated correctly, is_equal called on the two values). Value lists are also passed reversed and rotated; a store that held a value for an inner node is cleared and refilled with symbols only.",
   note="Trusted: pvcore reference semantics. Values beyond 8 symbol bits come from the boundary alphabet."),
 "C02": dict(level="model_checking", engine="drv-mc", design="§4 C02",
   technique="explicit-state reachability oracle vs the real bmc() run against an enumeration-based reference solver over the real pipe protocol; systems enumerated by deviation-bounded sweeps",
   text="For every system of the enumerated family (skeletons K1..K7, sweeps S1/S3, +S2 thorough) x solver persona x bad-state mode x simplification x the two boundary bounds around the shortest counterexample, the real bmc() is executed end to end against a reference solver that decides by exhaustive enumeration; the verdict must equal the verdict of an explicit-state breadth-first search of the system's reference semantics. Hand-built corner systems (X-*: same init/next node, next-less systems, constant states with init, init expressions reading inputs, labelled roots, independent parts, input-only bad states, init-sharing, two-digit depths) and dead-end systems run before the interleaved sweeps. The yices persona is paired with constant-array systems too: an error is tolerated there (missing feature), a verdict is judged.",
   note="Trusted: pvcore::tsref reference semantics, smtref/refsmt reference solver (calibrated against real z3/cvc5). Systems have <= 3 state variables / 10 state bits, bounds <= 6."),
 "C03": dict(level="model_checking", engine="drv-mc", design="§4 C03",
   technique="witness replay through reference semantics for every alternative model of the final query (solver model choice point enumerated exhaustively up to 256 cubes)",
   text="Every failing session of the C02 family is re-run once per model the reference solver may legally return for the final satisfiable query (all satisfying cubes up to 256, min/max and both don't-care fillings above), plus PDR failures; every witness is replayed through the reference semantics with all shape, init, constraint and failed-set checks of the property. The corner systems of C02 (X-*, incl. roots labelled as the btor2 reader labels them and inputs that reach a constraint only through a register) are part of the family. Array systems are also run with the solver spelling array values as shadowed store chains and in descending store order.",
   note="Trusted: pvcore::tsref, refsmt. Replay is existential for next-less states (a witness has no values for them)."),
 "C04": dict(level="model_checking", engine="drv-mc", design="§4 C04",
   technique="recorded unrolling script checked by a strict SMT-LIB reference front end and evaluated under every concrete execution of the system (explicit-state enumeration of executions)",
   text="UnrollSmtEncoding is driven directly (init_at(0|1|3) + 0..3 unrolls) with a recording SolverContext; the exact serialized text must be accepted by a strict standard-conforming front end, and for every concrete execution of the system of that length every per-step symbol must evaluate to the reference value of its signal. The corner systems add init expressions reading inputs (s0 = init(i0)), shared init cones, and entries at steps 9/10 with two-digit step numbers. The encoder is also built with include_outputs (aliasing outputs added to every system; an output symbol is compared wherever the encoder has one) and driven through a second session (init_at after an earlier init_at+unroll run of the same object on another solver, overlapping step numbers).",
   note="Trusted: smtref strict front end (SMT-LIB 2.6), pvcore::tsref. At most 4096 executions per (system, entry, depth)."),
 "C10": dict(level="model_checking", engine="drv-mc", design="§4 C10",
   technique="real pdr() against the reference solver; solver answers (models, unsat cores) are numbered choice points explored by policy sweeps and deviation-bounded schedule enumeration; verdict vs explicit-state reachability to a fixpoint",
   text="On every bit-vector system of the family the real pdr() runs against a reference solver whose every multi-valued answer is a choice point: all-min/all-max/filling/full-core/padded-core policies for every system and every single deviation from the default answer at every choice point for a subset (deviation bound 1; 2 in thorough). Success must imply unreachability, Fail reachability with a replaying witness; anything else on a fault-free run is a violation. Thorough: deviation bound 2 (pairs of deviations, the second from the first one's own conversation) for up to 12 systems; the corner systems X-* run first.",
   note="Trusted: refsmt answers are legal by construction; termination observed as return within a deadline (twice)."),
 "C15": dict(level="fault_enumeration", engine="drv-mc", design="§4 C15",
   technique="fault kind x position enumeration over recorded BMC/PDR solver conversations, injected by the reference solver",
   text="For every response-bearing command of the recorded conversations and every fault kind (error replies of all critical lengths, unknown, empty, truncated+exit, exit 0/1, balanced and unbalanced garbage) one run is made with exactly that fault; the engine must return Err/Unknown, never a verdict, never panic or hang, and carry the solver's message verbatim. Added fault kind: an unsolicited general response (unsupported / success / a late error) in front of an intact reply - the verdict must then equal the fault-free one.",
   note="Trusted: refsmt fault injector; termination observed as return within a deadline (twice)."),
 "C05": dict(level="exploration", engine="drv-smt", design="§4 C05",
   technique="bounded-exhaustive term enumeration; writer output checked by a strict SMT-LIB reference front end (sort checker + evaluator) under exhaustive/boundary assignments",
   text="Every term of the stated alphabet (all 35 operators, 1-bit and wider operands in every argument position, arrays with Bool index/data) is written inside every command kind by serialize_cmd; the text must be accepted with the expected sorts by a strict SMT-LIB 2.6 front end and denote the same value as the expression under every assignment of a stated finite value space; symbol names of every lexical class are swept separately. Identifier classes include literal-shaped names and non-ASCII characters whose low byte is ASCII.",
   note="Trusted: smtref strict front end and evaluator, pvcore reference evaluator."),
 "C14": dict(level="exploration", engine="drv-smt", design="§4 C14",
   technique="bounded-exhaustive enumeration of writer outputs and of grammar-generated model values with all prefix / single-parenthesis mutations, fed end to end through the real solver pipe",
   text="Every writer output of the C05 space is read back by parse_expr and compared semantically; every command the writer can emit must survive write-read-write; grammar-generated model values (literals, const arrays, store chains, lets) are returned by a scripted reference solver to the real SolverContext::get_value and must be read as the value the strict front end assigns; every proper prefix and single-parenthesis mutation must yield an error or the unchanged value. Added: let scoping under four symbol tables, identifier classes (incl. literal- and keyword-shaped and non-ASCII names) in the round trip, n-ary applications (rejected or read with the reference's value); the intact reply of every model value runs before the mutated replies. read_command: every legal command stream up to depth 5 (thorough 7) over a scope-stack alphabet (declare / define x at four sorts, use, push, pop; re-declaration after pop) in four layouts through short-read sources must come back command by command.",
   note="Trusted: smtref strict front end. Leniency that still yields the right value is tolerated."),
 "C12": dict(level="model_checking", engine="drv-expr", design="§4 C12",
   technique="explicit-state search over construction histories of a real Context against a shadow map from structural keys to references",
   text="All sequences of up to 3 (quick) / 4 (thorough) constructor calls over a pool of symbol, literal (by many different computation routes, widths 1..129), operator and string constructors are replayed on a real Context, from empty contexts and from contexts holding 70 000 unrelated insertions; after every call the shadow map checks same key => same reference, different key => different reference, and that every earlier reference still denotes the recorded expression, type and name. Array literals (Context::lit of an array value filled in different orders) must yield one reference. The pool holds the nested shapes a no-op elimination would look at (store of a read, read of a store, double application, adjacent slices) and names a normalisation would touch (|a|, blanks, case).",
   note="Trusted: the shadow map's structural key. Histories longer than 4 calls are not explored."),
 "C13": dict(level="model_checking", engine="drv-expr", design="§4 C13",
   technique="term sweep for idempotence/termination plus explicit-state search over orderings of simplify calls on one Simplifier instance (sparse and dense caches)",
   text="Over the C01 term space every term is simplified twice (idempotence, sparse = dense cache) under a deadline of 100x the slowest normal call (termination); all ordered pairs (thorough: triples) of a pool of sub-term-sharing terms are fed to one Simplifier and each result must be the reference a fresh simplifier returns. Added: child/parent cache-transparency pairs, deep chains (five patterns nested up to 70000 / 300000 times), and a creation-order sweep (every one-operator term simplified alone and in contexts pre-populated with all one-operator terms in both orders). The result caches themselves (SparseExprMap / DenseExprMetaData under Index, IndexMut, get_fixed_point, clone; DenseExprSet / SparseExprSet) are searched breadth-first over their operation histories to a fixpoint of the state graph against a BTreeMap / BTreeSet; long-lived simplifier instances answer every term of a prebuilt context in four call orders (hundreds of calls per cache).",
   note="Termination is observed as return within a deadline, twice. Terms on which the simplifier panics inside baa (C01 findings) are skipped and counted."),
 "C19": dict(level="exploration", engine="drv-misc", design="§4 C19",
   technique="exhaustive enumeration of rule x width/sign instantiations with exhaustive operand evaluation against the reference evaluator; exhaustive round-trip sweep of the convertible fragment",
   text="Every rule of the shipped rewrite set is instantiated for every assignment of its width variables (operand widths 1..4/5, derived widths up to full precision) and both values of every sign variable; for every instance whose side condition holds both sides are lowered with the crate's own from_arith and compared on ALL operand values; every expression of the convertible fragment with <= 2 operators is converted to the e-graph language and back and compared exhaustively. Round trips include the same base symbol under two different extensions as both operands. Instances at the width boundaries 31..33 / 63..65 of one operand (where wlsh saturates) are included, evaluated over the boundary alphabet.",
   note="Trusted: pvcore reference evaluator. Widths above 5 (operands) are not explored."),
 "C20": dict(level="model_checking", engine="drv-misc", design="§4 C20",
   technique="explicit-state search over operation histories of real ValueSummary objects; invariant (disjoint, exhaustive guards; denotation) evaluated in every state under all 2^7 valuations",
   text="All histories of new/apply_bin_op/apply_ite/coalesce/import_into_guard up to depth 3(+1 unary) quick / 4(+1) thorough over a fixed terminal set are replayed on real summaries (through the cfg(patronus_verif) hooks); in every state and for every valuation of the terminals exactly one guard must hold and the selected value must equal the reference denotation; expr_to_guard is swept over all boolean terms with <= 2 operators. The leaf alphabet includes the literals true and 2'd2.",
   note="Trusted: reference denotation computed by pvcore evalref; hooks verif_entries/verif_eval only read."),
 "C07": dict(level="model_checking", engine="drv-sys", design="§4 C07",
   technique="explicit-state search over operation histories (init/set/step/snapshot/restore, all reads after every operation) of the real Interpreter against a reference simulator",
   text="All histories up to depth 6 (quick) / 7 (thorough) over the operation alphabet are replayed on fresh Interpreter objects for every system of the family; after every operation every state, input, output, bad, constraint, init, next expression and inner node is read and compared with the reference simulator; states are merged by the reference model's key (state values, input values, ordered snapshot contents). Every snapshot of a merged or unexpanded history is probed by restore+read and restore+step+read; a 130-bit delay line and a bypass-read memory are among the hand-built systems.",
   note="Trusted: reference simulator on pvcore::tsref/evalref. Values of next-less states and random initial values are adopted from the simulator and only their consequences checked."),
 "C11": dict(level="exploration", engine="drv-sys", design="§4 C11",
   technique="bounded-exhaustive system enumeration; every function compared under all valuations; lock-step reference simulation over all short input sequences",
   text="For every system of the family (S1+S3, +S2 thorough; named intermediate nodes; anonymous-prefixed inputs/states) simplify_expressions and replace_anonymous_inputs_with_zero are applied to a clone; inputs/states lists, every init/next/output/bad/constraint function (all valuations) and all executions up to 3-4 steps must agree with the original (restricted to zero for removed inputs), and removed inputs must not occur anywhere. Init expressions reading (anonymous) inputs, inputs read by init only, and look-alike input names (containing but not starting with the anonymous prefixes) are part of the family. Every two-operator term of a small universe is the root of a system of its own (second pass, strided by the seed in quick).",
   note="Trusted: pvcore reference evaluator and TS semantics."),
 "C17": dict(level="model_checking", engine="drv-sys", design="§4 C17",
   technique="every sub-expression as root x three cone variants; tightness against an independent dependency search; sufficiency by exhaustive perturbation of all executions on the reference semantics",
   text="For every system of the family and every sub-expression as root, each of the three cone functions must return only declared inputs/states, exactly the set an independent dependency-graph search reaches, and changing any symbol outside the cone in any execution (all initial states x all input sequences up to the horizon) must never change the root's value. A watchdog turns a runaway cone call into a violation; hand-built systems include bypass reads (constant-address reads over symbolic-address stores). A system with more than 2^16 registers is checked for membership / tightness only.",
   note="Trusted: pvcore reference semantics; horizon 3 (quick) / 5 (thorough)."),
 "C08": dict(level="exploration", engine="drv-btor", design="§4 C08",
   technique="bounded-exhaustive enumeration of btor2 texts (operator x sorts x operand choice x negation placement x line order) evaluated under all valuations against an independent text-level btor2 interpreter",
   text="Single- and two-operator files for every supported operator at the stated sorts, all negation placements, constants in all three bases, init/next attachment and all admissible line orders of small files are parsed by the real reader; every output/bad/constraint/init/next is evaluated under all valuations of inputs and states and compared with a reference btor2 interpreter that works on the text only; every variant with one declared sort replaced must be rejected. Operand-id mutants and sort-id mutants (also towards sorts the file does not declare) are classified by the reference reader (well-sorted: compared; ill-sorted: must be rejected, non-marker panics count); 2048 name-collision files check that distinct declarations stay distinct symbols. Files with two or three constants of one width (same digits in different bases, same line twice) and two-operator chains through a width change (ext of ext, slice of ext, ...) are part of the space.",
   note="Trusted: btorref (text-level btor2 semantics written from the format definition), pvcore reference evaluator."),
 "C09": dict(level="exploration", engine="drv-btor", design="§4 C09",
   technique="bounded-exhaustive system enumeration plus all shipped btor2 files through write/read; positional, structural (DAG isomorphism) and exhaustive semantic comparison",
   text="Every system of the family (S1+S3, +S2 thorough, enriched with array inits, constant states, anonymous/named signals, aliases, literal shapes) and all shipped btor2 files are written with the real writer and read back; counts, types, and every function must agree (same reference, isomorphic DAG, or equal under all valuations); explicit names must survive a further cycle. Every two-operator term of a small universe is additionally the output/next/bad root of a system of its own. The generic entry point serialize() writes into sinks that accept 1, 2, 3, 7 or 16 bytes per call (legal short writes): same text.",
   note="A pair that is neither isomorphic nor decidable by enumeration is reported as undecided, never as a violation."),
 "C16": dict(level="exploration", engine="drv-btor", design="§4 C16",
   technique="bounded-exhaustive enumeration of complete witnesses and concatenations through print/parse",
   text="All complete witnesses over the stated shapes (0-2 states incl. arrays with several recorded indices, 0-2 inputs, 1-3 frames, failed sets, name classes incl. @ and #) and all concatenations of 1-3 of them are printed and parsed back; every field must be equal. Also zero-step witnesses, sparse arrays with index widths 8..128, and large witnesses (12 states, 11 inputs up to 200 bits, 12 frames, property numbers 10/123/2^32-1). print_witness into short-write sinks and parse_witness from sources that yield 1, 2, 3, 7, 16 bytes at a time must agree with the one-shot result; names that end in a step marker or contain non-separator blanks are in the name alphabet.",
   note="Array contents are compared at every recorded index."),
 "C18": dict(level="exploration", engine="drv-btor", design="§4 C18",
   technique="deviation-bounded mutation enumeration (all single mutations; all pairs in thorough) of a corpus of valid files, run in sandboxed worker processes; accepted results deep-type-checked",
   text="Every single token/line mutation (hostile token menu, deleted/duplicated/swapped lines, widths 0, reversed slices, huge numbers, unicode) of a corpus of valid btor2 files is fed to the real reader in worker subprocesses with memory and time limits; the outcome must be a clean failure or a system that passes the deep reference type checker; only the documented not-yet-supported markers may panic. When the reference reader rejects a text that the subject accepts, the widths the text declares for the nodes behind its output lines are still compared textually. Line ids declared twice (a state id re-used by a node of another sort, then init / next on it) are a family of their own.",
   note="Texts that declare sorts of 2^24 bits or more are legitimately slow and are counted, not judged, when they exceed the deadline."),
}

NOT_YET = {}

ALL = [f"C{i:02d}" for i in range(1, 21)]

def main():
    checks = []
    for pid in ALL:
        if pid not in CHECKS:
            continue
        c = CHECKS[pid]
        checks.append({
            "property_id": pid,
            "quick_cmd": f"./check {pid} quick",
            "thorough_cmd": f"./check {pid} thorough",
            "evidence_file": f"/verif/evidence/{pid}.json",
            "replay_cmd_template": f"./check {pid} --replay {{path}}",
            "engine": c["engine"],
            "level_claimed": {"category": c["level"], "text": c["text"], "design_ref": c["design"]},
            "level_note": c["note"],
            "technique": c["technique"],
        })
    na = [{"property_id": p, "reason": NOT_YET.get(p, "check not built yet (work in progress this round); the design in DESIGN.md §4 applies")} for p in ALL if p not in CHECKS]
    m = {
        "version": 1,
        "setup_cmd": "./setup.sh",
        "hooks": {
            "guard": "patronus_verif",
            "enable": "RUSTFLAGS=--cfg patronus_verif via /verif/harness/.cargo/config.toml (harness builds /repo crates by path)",
            "baseline_off_cmd": "python3 /verif/tools/baseline.py /repo",
            "source_commits": ["fdbfeee"],
            "add_only": True,
        },
        "engines": [
            {"name": "drv-mc", "path": "/verif/harness/drv-mc", "serves_properties": ["C02", "C03", "C04", "C10", "C15"], "kind_free_text": "real bmc/pdr/encoding run in worker subprocesses against the reference solver refsmt (smtref crate) placed first on PATH under the real solvers' names; explicit-state oracle pvcore::tsref"},
            {"name": "drv-smt", "path": "/verif/harness/drv-smt", "serves_properties": ["C05", "C14"], "kind_free_text": "term/command/model-value enumeration against the strict reference SMT-LIB front end smtref"},
            {"name": "drv-misc", "path": "/verif/harness/drv-misc", "serves_properties": ["C19", "C20"], "kind_free_text": "rule-instance enumeration for the e-graph rewrites; explicit-state history search over ValueSummary through the patronus_verif hooks"},
            {"name": "drv-sys", "path": "/verif/harness/drv-sys", "serves_properties": ["C07", "C11", "C17"], "kind_free_text": "explicit-state history search over the real Interpreter; system-transformation and cone-of-influence sweeps against the reference TS semantics"},
            {"name": "drv-btor", "path": "/verif/harness/drv-btor", "serves_properties": ["C08", "C09", "C16", "C18"], "kind_free_text": "btor2 text/system/witness enumerators, reference text-level btor2 interpreter btorref, sandboxed mutation workers"},
            {"name": "drv-expr", "path": "/verif/harness/drv-expr", "serves_properties": ["C01", "C06", "C12", "C13"], "kind_free_text": "bounded-exhaustive enumeration of terms / construction histories over the real expression code"},
        ],
        "checks": checks,
        "not_applicable": na,
        "notes": "All checks: ./check <ID> quick|thorough; exit 0 held / 1 VIOLATION / 2 machinery. Known findings: /verif/known_findings.jsonl.",
    }
    json.dump(m, open("/verif/MANIFEST.json", "w"), indent=1)
    print("checks:", len(checks), "not_applicable:", len(na))

main()
