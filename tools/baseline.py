#!/usr/bin/env python3
"""Run the repository's own test suite with the verification guard OFF and compare with
/root/.vp/BASELINE.json: every stable_pass test must pass. Exit 0 iff so."""
import json, os, subprocess, sys, xml.etree.ElementTree as ET

repo = sys.argv[1] if len(sys.argv) > 1 else "/repo"
base = json.load(open("/root/.vp/BASELINE.json"))
env = dict(os.environ)
env.pop("RUSTFLAGS", None)  # guard off: no --cfg patronus_verif
env["CARGO_NET_OFFLINE"] = "true"
cfg = os.path.join(os.path.dirname(os.path.abspath(__file__)), "nextest.toml")
cmd = ["cargo", "nextest", "run", "--workspace", "--no-fail-fast", "--tool-config-file", f"pb:{cfg}",
       "--profile", "pb", "--test-threads", "8", "--offline"]
p = subprocess.run(cmd, cwd=repo, env=env, stdout=subprocess.PIPE, stderr=subprocess.STDOUT, text=True)
junit = None
for root in [os.environ.get("CARGO_TARGET_DIR"), os.path.join(repo, "target")]:
    if root and os.path.exists(os.path.join(root, "nextest", "pb", "junit.xml")):
        junit = os.path.join(root, "nextest", "pb", "junit.xml")
        break
if junit is None:
    print(p.stdout[-3000:])
    print("no junit output: build failure?")
    sys.exit(2)
passed, failed = set(), set()
for suite in ET.parse(junit).getroot().iter("testsuite"):
    sname = suite.get("name")
    for case in suite.iter("testcase"):
        name = f"{sname}::{case.get('name')}"
        bad = any(c.tag in ("failure", "error") for c in case)
        (failed if bad else passed).add(name)
want = set(base["stable_pass"])
missing = sorted(want - passed)
print(f"passed={len(passed)} failed={len(failed)} baseline_stable_pass={len(want)} missing={len(missing)}")
for m in missing:
    print("  NOT PASSING:", m)
sys.exit(0 if not missing else 1)
