import json, subprocess, os, sys
needs = {
"C01-1":"the whole-system pass (simplify_expressions); a state whose next or init is directly an input / state symbol that is no operand of a compound expression elsewhere",
"C01-2":"eq of two mul nodes sharing the same even, non-power-of-two literal (width >= 3); operands differing by a multiple of 2^(w - tz)",
"C02-1":"a sext whose operand is exactly 1 bit wide and true in the deciding execution (also produced by simplification of a slice into sign bits)",
"C02-2":"yices2 profile, an array state with constant init, a bad state reading the highest index before it is written",
"C03-1":"array state/input value read from the model as a store chain in which a later store writes the base default back to an index stored before",
"C03-2":"a constraint that is the literal false, bmc with check_constraints=false, an otherwise reachable bad state",
"C04-1":"a constant array with a non-literal fill (input / changing state) and index width != data width in an unrolled expression",
"C04-2":"one UnrollSmtEncoding object reused for a second init_at session on a fresh solver with overlapping step numbers",
"C05-1":"three or more directly nested slices whose innermost slice has lo != 0",
"C05-2":"a symbol named exactly `_` or `BINARY` (reserved words missed by a binary search over an unsorted table)",
"C06-1":"a SymbolValueStore that held a value for an inner expression, then clear(), then only the symbols defined again",
"C06-2":"values supplied as a slice of pairs whose last entry is older than another entry that is looked up",
"C07-1":"an input changed between take_snapshot and restore_snapshot, then a step without setting it again",
"C07-2":"InitKind::Random, an array state without init, index width >= 17 and != data width",
"C08-1":"two const/constd/consth lines of one width with the same digit string in different bases",
"C08-2":"a sext line (by > 0) whose operand is directly a uext line (by > 0), value with the top bit set",
"C09-1":"an array-typed output that is directly a named array state/input and carries a different name (alias line on an array)",
"C09-2":"the generic serialize() entry point with a sink that accepts only part of the buffer per write call, a literal that is not 0/1/ones",
"C10-1":"unsat-core generalisation on, a solver returning particular proper sub-cores, a general cube learned at a low frame after a specific one at a higher frame, bad deeper than the frontier (one 16-state table)",
"C10-2":"a constant register with an init value under whose other value the bad state would be reachable; frontier >= 2",
"C11-1":"two anonymous inputs of which the later-declared one has the older symbol (creation order != declaration order)",
"C11-2":"a constraint that refers to an anonymous input, replace_anonymous_inputs_with_zero",
"C12-1":"array_store(a, i, array_read(b, i)) with the same index reference and a different array",
"C12-2":"a symbol created through the &str constructors whose name starts and ends with `|`",
"C13-1":"an arithmetic shift right whose amount is not a literal but folds to one (two cooperating sites)",
"C13-2":"the dense cache, at least 64 earlier simplify calls on the instance, an older not yet simplified expression whose simplification lies below its root",
"C14-1":"read_command on a stream that declares the same name twice (legal after pop) with a different sort, then uses it",
"C14-2":"a set-option / set-info value that has to be written as a quoted symbol and contains two adjacent double quotes",
"C15-1":"yices2 profile (push/pop emulation), an (error ...) reply at check-sat, the solver gone right after it",
"C15-2":"an (error ...) reply whose message ends in a backslash, solver alive",
"C16-1":"a state or input name whose last character is @ or #",
"C16-2":"a name containing a Unicode blank that is neither space nor tab (no-break space, ideographic space)",
"C17-1":"cone_of_influence_comb only; a symbol used twice popped before another signal is discovered; count reaching the signal total",
"C17-2":"a system with at least 65536 states and a root depending on a state at position >= 65535",
"C18-1":"a line id that is first a state and is then re-used by a later node of another type; init/next on that id matching the new node",
"C18-2":"eq / neq of two arrays with the same index width and different data widths (debug assertions)",
"C19-1":"the left-shift-mult rule with a shift amount operand of width >= 32",
"C19-2":"to_arith/from_arith round trip of an operand extended in two or more steps of the same kind",
"C20-1":"a multi-entry condition summary in which the same value occurs under two guards, un-coalesced (apply_ite / import_into_guard)",
"C20-2":"a nested ite whose else-branch is a multi-entry summary split on a condition BDD-equivalent to the outer one",
}
res = {}
for f in ["/verif/scratch/w4/rerun.json", "/verif/scratch/w4/rerun2.json", "/verif/scratch/w4/rerun3.json"]:
    if os.path.exists(f):
        for r in json.load(open(f)):
            res[r["name"]] = r
out = "/verif/scratch/w4keep/out"
for pid in ["C%02d" % i for i in range(1, 21)]:
    for k in (1, 2):
        key = f"{pid}-{k}"; name = f"{pid}-{6 + k}"
        r = res.get(f"{pid}-w4-{k}", {})
        if r.get("verdict") == "CAUGHT":
            caught = f"{pid} quick: {r['signatures']}"
        else:
            caught = f"NOT caught by {pid} quick ({r.get('verdict','?')}); see DESIGN.md 10.7"
        pkg = "patronus-egraphs" if pid == "C19" else "patronus-dse" if pid == "C20" else "patronus"
        subprocess.run(["python3", "/verif/tools/store_seed.py", name, pid, f"{out}/{pid}", str(k), needs[key], caught, f"{pkg}/tests/<name>.rs"], check=True, stdout=subprocess.DEVNULL)
        m = json.load(open(f"/verif/seeded/{name}/meta.json"))
        m["wave"] = 4
        m["confirmed_by_me"][1] = f"tools/par_seeds.py {name}=patch.diff:{pid} (applied in a scratch worktree of /repo, quick check run there, worktree reverted)"
        json.dump(m, open(f"/verif/seeded/{name}/meta.json", "w"), indent=1)
print("stored", len(needs))
