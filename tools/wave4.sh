#!/bin/bash
# tools/wave4.sh <ID> [PKG]   confirm both changes of a wave-4 agent in its worktree, then run the quick check on each (par_seeds slots)
ID="$1"; PKG="${2:-patronus}"; export PKG
OUT=/tmp/w4/out/$ID; WT=/tmp/w4/$ID
mkdir -p /verif/scratch/w4
{
for k in 1 2; do
  if [ -f $OUT/change$k.diff ] && [ -f $OUT/demo$k.rs ]; then
    echo "=== $ID change $k: verify"
    /verif/tools/verify_seed.sh $WT $OUT/change$k.diff $OUT/demo$k.rs w4demo_${ID}_$k --no-fail-fast
  else
    echo "=== $ID change $k: MISSING files"
  fi
done
echo "=== checks"
ITEMS=""
for k in 1 2; do [ -f $OUT/change$k.diff ] && ITEMS="$ITEMS $ID-w4-$k=$OUT/change$k.diff:$ID"; done
python3 /verif/tools/par_seeds.py --slots 2 $ITEMS
} > /verif/scratch/w4/$ID.log 2>&1
echo "done $ID"
